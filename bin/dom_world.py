"""World domain (h_world): entity/storage/lazy op histories on a real specs::World."""
import glob, os, sys, time
from concurrent.futures import ThreadPoolExecutor
import vlib

BIN = "h_world"

# Per property: monitor tags that decide it, op kinds whose results form its projection of the
# transcript (a model/implementation DIFF on another op kind is somebody else's business).
PROBE_OPS = {"alive", "walive", "ejoin", "pejoin", "mask", "events"}   # printed by the harness after every mutating op anyway
OP_ALIAS = {"gget": "get", "ggetmut": "getmut", "gins": "ins", "uins": "ins", "grem": "rem", "lget": "get", "lgetmut": "getmut", "ldrain2": "rem", "lentry2": "entry_or", "pejoin": "ejoin", "lazy_create_nobuild": "lazy_create"}   # same model ops
STORE_OPS = ["get", "getmut", "has", "ins", "rem", "entry_or", "entry_rep", "entry_rem", "mut_or_default"]
PROPS = {
    "C01": {"mon": ["C01"], "proj": ["create", "create_iter", "createw", "lazy_create"], "kind": "ent",
            "what": "handles returned by every creation path are never repeated; no two not-dead handles share an index"},
    "C02": {"mon": ["C02"], "proj": ["del_now", "del_batch", "del_atomic", "del_all", "maintain", "alive", "walive", "ejoin"], "kind": "ent",
            "what": "aliveness answers, deletion results/positions and entity joins follow the create/delete/maintain timeline"},
    "C17": {"mon": ["C17"], "proj": ["create", "create_iter", "createw", "lazy_create"], "kind": "ent",
            "what": "every index handed out is below the running peak of simultaneously not-dead entities"},
    "C03": {"mon": ["C03"], "proj": STORE_OPS + ["rjoin"], "kind": "store", "focus": ["any", "far", "many", "rjoin"], "sexh": [0, 1, 3, 7],
            "what": "every handle-taking storage access through a dead or stale handle behaves as absent and changes nothing"},
    "C04": {"mon": ["C04"], "proj": STORE_OPS + ["count", "empty", "mask", "clear", "drain", "slice", "createw"], "kind": "store",
            "focus": ["any", "far", "many", "churn", "churn"], "sexh": list(range(12)),
            "what": "every storage kind is observably a plain map from live entity to component (results, mask, count, slices)"},
    "C05": {"mon": ["C05"], "proj": ["del_now", "del_batch", "del_atomic", "del_all", "maintain", "mask", "slice", "createw", "create", "create_iter", "reg", "lazy_create"],
            "kind": "store", "focus": ["many", "any", "lazy", "many"], "sexh": [1, 6],
            "what": "a deletion taking effect purges the entity's components from every registered storage and nothing else; new entities start empty"},
    "C08": {"mon": ["C08"], "proj": ["drop_world"], "ledger": True, "kind": "store", "focus": ["ledger", "any", "lazy", "many", "churn", "fault"], "sexh": [0, 1, 2, 5],
            "what": "every value moved into the world is returned or destroyed exactly once; nothing is leaked once the world is dropped"},
    "C09": {"mon": ["C09"], "proj": ["lazy_ins", "lazy_ins_all", "lazy_rem", "lazy_create", "lazy_exec", "maintain", "in"], "kind": "store",
            "focus": ["lazy", "lazy", "lazy", "many"], "sexh": [1],
            "what": "queued lazy actions run exactly once, in queue order, after merge and purge, and act only on their live target"},
    "C12": {"mon": ["C12"], "proj": ["events", "emit"], "kind": "store", "focus": ["tracked", "tracked", "tracked", "many"], "sexh": [6, 7, 8, 9, 10, 11],
            "what": "tracked storages emit exactly the insert/modify/remove events of each operation, in order"},
    "C19": {"mon": ["C19", "C08"], "proj": ["dump", "ins", "entry_or", "del_now", "del_batch", "del_all", "maintain", "clear", "drop_world", "get", "mask", "createw", "lazy_probe", "events"],
            "ledger": True, "kind": "store", "focus": ["fault", "fault", "fault", "faultchurn", "faultchurn", "lazy"], "sexh": [],
            "what": "after a caught destructor panic no value is destroyed twice, no destroyed value is visible, and the world keeps conforming to the storage specification"},
    "C13": {"mon": ["C13"], "proj": ["rjoin", "events"], "kind": "store", "focus": ["rjoin", "rjoin", "rjoin", "tracked", "many"], "sexh": [1, 7, 10],
            "what": "restricted storages visit exactly the members, read/write like direct lookups, apply the storage rule to other-entity lookups and flag only mutable fetches"},
}


def plan(prop, tier, seed):
    """Harness invocations for a tier: (label, argv-tail)."""
    spec = PROPS[prop]
    runs = []
    for f in sorted(glob.glob(os.path.join(vlib.VERIF, "corpus", "world", "*.ops"))):
        runs.append(("corpus:" + os.path.basename(f), ["run", f]))
    if spec["kind"] == "ent":
        if tier == "quick":
            runs += [("exh3", ["exh", "3"]), ("exh4", ["exh", "4"])]
            for i in range(4):
                runs.append((f"gen{i}", ["gen", str(seed * 1000 + i), "500", "60"]))
            runs.append(("sgen", ["sgen", str(seed), "300", "40", "any"]))
            # entity operations issued from INSIDE lazily executed scripts (deletions, creations, dropped builders)
            runs.append(("sgen-lazy", ["sgen", str(seed * 1000 + 7), "500", "45", "lazy"]))
            runs.append(("sgen-lazy2", ["sgen", str(seed * 1000 + 8), "500", "45", "lazy"]))
        else:
            runs += [("exh3", ["exh", "3"]), ("exh4", ["exh", "4"])]
            for s in range(16):
                runs.append((f"exh5/{s}", ["exh", "5", str(s), "16"]))
            for s in range(32):
                runs.append((f"exh6/{s}", ["exh", "6", str(s), "32"]))
            for i in range(16):
                runs.append((f"gen{i}", ["gen", str(seed * 1000 + i), "3000", "150"]))
            for i in range(4):
                runs.append((f"genlong{i}", ["gen", str(seed * 1000 + 100 + i), "40", "20000"]))
            for i in range(8):
                runs.append((f"sgen{i}", ["sgen", str(seed * 1000 + i), "2000", "80", "any"]))
            for i in range(8):
                runs.append((f"sgen-lazy{i}", ["sgen", str(seed * 1000 + 50 + i), "2500", "80", "lazy"]))
    else:
        foci = spec["focus"]
        if tier == "quick":
            for i, f in enumerate(foci):
                runs.append((f"sgen-{f}-{i}", ["sgen", str(seed * 1000 + i), "900" if f in ("fault", "faultchurn") else "350", "120" if f in ("churn", "faultchurn") else "45", f]))
            for k in spec["sexh"][:4]:
                runs.append((f"sexh{k}/3", ["sexh", str(k), "3"]))
            if prop == "C05":
                # deletions over storages of plain-data component types (kinds 1 and 2 without a destructor)
                runs.append(("sgen-many-pod", ["sgen", str(seed * 1000 + 90), "350", "45", "many"], {"VH_POD": "1"}))
                runs.append(("sgen-churn-pod", ["sgen", str(seed * 1000 + 91), "300", "120", "churn"], {"VH_POD": "1"}))
            if prop == "C04":
                # kinds 1 and 2 with component types that have no destructor (plain data)
                runs.append(("sgen-churn-pod", ["sgen", str(seed * 1000 + 88), "350", "120", "churn"], {"VH_POD": "1"}))
                runs.append(("sgen-any-pod", ["sgen", str(seed * 1000 + 89), "350", "45", "any"], {"VH_POD": "1"}))
                runs.append(("sexh1/3-pod", ["sexh", "1", "3"], {"VH_POD": "1"}))
                runs.append(("sexh2/3-pod", ["sexh", "2", "3"], {"VH_POD": "1"}))
            if prop == "C12":
                # tracked storages over plain-data component types (kinds 8 and 9 without drop glue)
                runs.append(("sgen-tracked-pod", ["sgen", str(seed * 1000 + 92), "350", "45", "tracked"], {"VH_POD": "1"}))
                runs.append(("sgen-many-pod", ["sgen", str(seed * 1000 + 93), "300", "45", "many"], {"VH_POD": "1"}))
                # the same tracked histories on the build of specs without `storage-event-control` (and without `parallel`)
                runs.append(("np/sgen-tracked", ["sgen", str(seed * 1000 + 66), "400", "45", "tracked"]))
                runs.append(("np/sgen-many", ["sgen", str(seed * 1000 + 67), "300", "45", "many"]))
            if prop == "C12":
                # the same tracked histories with a ZERO-SIZED component type in kind 6 (values always 0)
                runs.append(("sgen-tracked-zst6", ["sgen", str(seed * 1000 + 77), "400", "45", "tracked"], {"VH_ZST6": "1"}))
                runs.append(("sexh6/3-zst6", ["sexh", "6", "3"], {"VH_ZST6": "1"}))
        else:
            for rep in range(4):
                for i, f in enumerate(foci):
                    runs.append((f"sgen-{f}-{rep}.{i}", ["sgen", str(seed * 1000 + 10 * rep + i), "2500", "160" if f in ("churn", "faultchurn") else "90", f]))
            for k in spec["sexh"]:
                runs.append((f"sexh{k}/3", ["sexh", str(k), "3"]))
                for s in range(4):
                    runs.append((f"sexh{k}/4/{s}", ["sexh", str(k), "4", str(s), "4"]))
            if prop == "C05":
                for i in range(4):
                    runs.append((f"sgen-many-pod{i}", ["sgen", str(seed * 1000 + 90 + 2 * i), "2500", "90", "many"], {"VH_POD": "1"}))
                    runs.append((f"sgen-churn-pod{i}", ["sgen", str(seed * 1000 + 91 + 2 * i), "2000", "160", "churn"], {"VH_POD": "1"}))
            if prop == "C04":
                for i in range(4):
                    runs.append((f"sgen-churn-pod{i}", ["sgen", str(seed * 1000 + 88 + 2 * i), "2500", "160", "churn"], {"VH_POD": "1"}))
                    runs.append((f"sgen-any-pod{i}", ["sgen", str(seed * 1000 + 89 + 2 * i), "2500", "90", "any"], {"VH_POD": "1"}))
                for k in (1, 2):
                    runs.append((f"sexh{k}/3-pod", ["sexh", str(k), "3"], {"VH_POD": "1"}))
                    for s in range(4):
                        runs.append((f"sexh{k}/4/{s}-pod", ["sexh", str(k), "4", str(s), "4"], {"VH_POD": "1"}))
            if prop == "C12":
                for i in range(4):
                    runs.append((f"sgen-tracked-pod{i}", ["sgen", str(seed * 1000 + 92 + 2 * i), "2500", "90", "tracked"], {"VH_POD": "1"}))
                    runs.append((f"np/sgen-tracked{i}", ["sgen", str(seed * 1000 + 66 + 2 * i), "2500", "90", "tracked"]))
                    runs.append((f"np/sgen-many{i}", ["sgen", str(seed * 1000 + 67 + 2 * i), "2000", "90", "many"]))
            if prop == "C12":
                for i in range(4):
                    runs.append((f"sgen-tracked-zst6-{i}", ["sgen", str(seed * 1000 + 77 + i), "2500", "90", "tracked"], {"VH_ZST6": "1"}))
                runs.append(("sexh6/3-zst6", ["sexh", "6", "3"], {"VH_ZST6": "1"}))
                for s in range(4):
                    runs.append((f"sexh6/4/{s}-zst6", ["sexh", "6", "4", str(s), "4"], {"VH_ZST6": "1"}))
    return runs


LEDGER = {"on": False}


# environment that belongs to the INPUT of a run (recorded in replays as `# env K=V`): set, during the sequential
# reporting phase, to the one of the run being reported, so that re-runs and shrinking happen under it
EXTRA_ENV = {}


# binary of the run being reported (sequential phase): the all-features build, or — label `np/…` — the build of the same
# harness against specs WITHOUT default features (harness/np: no `parallel`, no `storage-event-control`)
ACTIVE_BIN = [None]


def hb():
    return ACTIVE_BIN[0] or vlib.hbin(BIN)


def bin_of(label):
    return vlib.hbin_np("h_world_np") if label.startswith("np/") else vlib.hbin(BIN)


def henv(extra=None):
    e = dict(os.environ)
    if LEDGER["on"]:
        e["VH_LEDGER"] = "1"
    e.update(EXTRA_ENV if extra is None else extra)
    return e


def env_header():
    np = ["build: np  (harness/np: specs built WITHOUT its default features — no `parallel`, no `storage-event-control`; replay uses that build)"] \
        if ACTIVE_BIN[0] and "-np" in ACTIVE_BIN[0] else []
    return np + [f"env {k}={v}" for k, v in EXTRA_ENV.items()]


def run_one(args):
    label, tail = args[0], args[1]
    extra = args[2] if len(args) > 2 else {}
    lines, hrc, err = vlib.pipe_to_driver([bin_of(label)] + tail, env=henv(extra))
    r = vlib.parse_driver(lines)
    r["label"], r["tail"], r["hrc"], r["err"], r["env"] = label, tail, hrc, err, extra
    return r


def relevant(prop, r):
    spec = PROPS[prop]
    mons = [m for m in r["mon"] if m.split()[1] in spec["mon"] or m.split()[1] == "C00"]
    diffs = []
    for d in r["diff"]:
        op = (vlib.field(d, "op") or "[]").strip("[]").split()
        if op and op[0] == "in" and "in" not in spec["proj"]:
            op = op[2:]
        if op:
            op[0] = OP_ALIAS.get(op[0], op[0])
        if op and op[0] in spec["proj"]:
            diffs.append(d)
        elif spec.get("ledger") and "impl=[destroyed" in d:
            diffs.append(d)
    return mons, diffs


def run_script_ops(ops):
    """Runs an op script through harness and driver; returns parsed driver output."""
    path = os.path.join(vlib.TMP, f"script-{os.getpid()}-{time.time_ns()}.ops")
    with open(path, "w") as f:
        f.write("case s\n" + "\n".join(ops) + "\n")
    lines, hrc, err = vlib.pipe_to_driver([hb(), "run", path], timeout=120, env=henv())
    os.unlink(path)
    r = vlib.parse_driver(lines)
    r["hrc"] = hrc
    return r


def case_ops(r, case_id):
    path = os.path.join(vlib.TMP, f"tr-{os.getpid()}-{time.time_ns()}.txt")
    vlib.pipe_to_driver([hb()] + r["tail"], keep=path, env=henv())
    ops = vlib.extract_case(path, case_id)
    os.unlink(path)
    return ops


def search_from(prop, base_ops, tier, seed):
    """Correspondence broke without a monitor failure: look for a property failure in
    continuations of the diverging script (all alphabet continuations to depth d, plus random)."""
    depth = "2" if tier == "quick" else "3"
    ngen = "400" if tier == "quick" else "5000"
    # a base with thousands of entities is replayed by every continuation: keep the search inside the time budget
    weight = len(base_ops) + sum(int(t) for l in base_ops for t in l.split() if t.isdigit() and len(t) < 7)
    if weight > 1500:
        depth, ngen = "1", ("40" if tier == "quick" else "400")
    path = os.path.join(vlib.TMP, f"base-{os.getpid()}.ops")
    with open(path, "w") as f:
        f.write("case base\n" + "\n".join(base_ops) + "\n")
    found = None
    for tail in (["cont", path, depth], ["contgen", path, str(seed), ngen, "12"]):
        keep = os.path.join(vlib.TMP, f"cont-{os.getpid()}.txt")
        lines, hrc, err = vlib.pipe_to_driver([hb()] + tail, keep=keep, env=henv(),
                                              timeout=240 if tier == "quick" else 1800)
        r = vlib.parse_driver(lines)
        mons, _ = relevant(prop, r)
        if mons:
            cid = vlib.field(mons[0], "case")
            found = (vlib.extract_case(keep, cid), mons[0])
        if os.path.exists(keep):
            os.unlink(keep)
        if found:
            break
    os.unlink(path)
    return found


def report_failures(prop, tier, seed, results):
    """Returns (n_violations, printed known findings)."""
    spec = PROPS[prop]
    known = [k for k in vlib.known_findings() if k["property"] == prop]
    violations = 0
    seen_canon = set()
    # runs with a verdict of the property monitor first (a concrete failing history), correspondence breaks after them
    for r in sorted(results, key=lambda r: 0 if relevant(prop, r)[0] else (1 if (r["hrc"] != 0 or r["hang"] or r["bad"]) else 2)):
        mons, diffs = relevant(prop, r)
        crashed = r["hrc"] != 0 or r["hang"] or r["bad"]
        if not mons and not diffs and not crashed:
            continue
        EXTRA_ENV.clear()
        EXTRA_ENV.update(r.get("env") or {})
        ACTIVE_BIN[0] = bin_of(r["label"])
        if mons:
            m = mons[0]
            cid = vlib.field(m, "case")
            tag = m.split()[1]
            ops = case_ops(r, cid)
            ln = int(vlib.field(m, "line"))
            ops = ops[:ln]
            def still(o, tag=tag):
                rr = run_script_ops(o)
                return any(x.split()[1] == tag for x in rr["mon"])
            if still(ops):
                ops = vlib.ddmin(ops, still)
            canon = vlib.canonical(ops)
            if canon in seen_canon:
                continue
            seen_canon.add(canon)
            kf = [k for k in known if k["match"] == canon]
            if kf:
                print(f"KNOWN-FINDING: property={prop} {kf[0]['text']}")
                continue
            path = vlib.write_replay(prop, f"{seed}-{len(seen_canon)}",
                                     [f"property {prop}: {spec['what']}", f"monitor verdict on the implementation's transcript: {m}",
                                      f"found by: h_world {' '.join(r['tail'])} (case {cid}); minimised by ddmin",
                                      f"replay: bin/check {prop} --replay <this file>"] + env_header(), ops, "world")
            print(f"VIOLATION property={prop} replay={path}")
            violations += 1
        elif diffs:
            d = diffs[0]
            cid = vlib.field(d, "case")
            ops = case_ops(r, cid)
            ln = int(vlib.field(d, "line"))
            ops = ops[:ln]
            def still_diff(o):
                rr = run_script_ops(o)
                return bool(relevant(prop, rr)[1])
            if still_diff(ops):
                ops = vlib.ddmin(ops, still_diff)
            canon = "diff:" + vlib.canonical(ops)
            if canon in seen_canon:
                continue
            seen_canon.add(canon)
            found = search_from(prop, ops, tier, seed)
            if found:
                fops, m = found
                tag = m.split()[1]
                def still(o, tag=tag):
                    rr = run_script_ops(o)
                    return any(x.split()[1] == tag for x in rr["mon"])
                if still(fops):
                    fops = vlib.ddmin(fops, still)
                kf = [k for k in known if k["match"] == vlib.canonical(fops)]
                if kf:
                    print(f"KNOWN-FINDING: property={prop} {kf[0]['text']}")
                    continue
                path = vlib.write_replay(prop, f"{seed}-{len(seen_canon)}",
                                         [f"property {prop}: {spec['what']}", f"correspondence broke: {d}",
                                          f"directed search from the diverging script found: {m}"], fops, "world")
                print(f"VIOLATION property={prop} replay={path}")
            else:
                path = vlib.write_replay(prop, f"corr-{seed}-{len(seen_canon)}",
                                         [f"property {prop}: {spec['what']}",
                                          "the implementation left the Lean model (correspondence SpecsModel.Model.EWorld vs h_world) on this script;",
                                          "the theorems of SpecsModel.Props." + prop + " therefore no longer speak about this code.",
                                          f"first divergence: {d}",
                                          "directed search (alphabet continuations + random continuations) found no transcript rejected by the property monitor"],
                                         ops, "world")
                print(f"VIOLATION property={prop} replay={path} no-failing-input-found")
            violations += 1
        else:
            # the process running the real code died (abort, segmentation fault): run the command again with every op
            # announced before it is executed; the last case of that transcript is the script that kills the process
            if "crash" in seen_canon:
                continue
            seen_canon.add("crash")
            ops = []
            if r["hrc"] not in (0, None) and not r["hang"]:
                keep = os.path.join(vlib.TMP, f"crash-{os.getpid()}.txt")
                env = henv(); env["VH_EAGER"] = "1"
                vlib.pipe_to_driver([hb()] + r["tail"], keep=keep, env=env)
                cid, ops = vlib.last_case(keep) if os.path.exists(keep) else (None, [])
                if os.path.exists(keep):
                    os.unlink(keep)
                ops = [o for o in ops if o.split()[0] not in PROBE_OPS]
            def still_dies(o):
                return run_script_ops(o).get("hrc") not in (0, None)
            if ops and still_dies(ops):
                ops = vlib.ddmin(ops, still_dies)
                path = vlib.write_replay(prop, f"abort-{seed}",
                                         [f"property {prop}: {spec['what']}",
                                          f"the process running the real code dies inside the last operation of this script (harness exit status {r['hrc']}; {r['err'].strip()[-300:]})",
                                          f"found by: h_world {' '.join(r['tail'])} (case {cid}); minimised by ddmin",
                                          f"replay: bin/check {prop} --replay <this file>"] + env_header(), ops, "world")
                print(f"VIOLATION property={prop} replay={path}")
            else:
                path = vlib.write_replay(prop, f"crash-{seed}", [f"harness run {r['label']} did not complete: rc={r['hrc']} {r['hang']} {r['bad'][:2]}", r["err"]])
                print(f"VIOLATION property={prop} replay={path} no-failing-input-found")
            violations += 1
        if violations >= 3:
            break
    return violations


def check(prop, tier, seed, t0):
    spec = PROPS[prop]
    LEDGER["on"] = bool(spec.get("ledger"))
    lean = vlib.build_lean(prop, thorough=(tier == "thorough"))
    violations = 0
    if not lean["ok"]:
        path = vlib.write_replay(prop, "proof", [f"theorems of SpecsModel.Props.{prop} do not check: {lean.get('reason')}", lean["log"]])
        print(f"VIOLATION property={prop} replay={path} no-failing-input-found")
        violations += 1
    ok, blog = vlib.build_harness([BIN])
    if ok and any(r[0].startswith("np/") for r in plan(prop, tier, seed)):
        ok, blog = vlib.build_harness_np()
    results = []
    if not ok:
        path = vlib.write_replay(prop, "build", ["the harness does not build against /repo's working tree, so the model cannot be tied to this code", blog])
        print(f"VIOLATION property={prop} replay={path} no-failing-input-found")
        violations += 1
    else:
        with ThreadPoolExecutor(max_workers=16) as ex:
            results = list(ex.map(run_one, plan(prop, tier, seed)))
        violations += report_failures(prop, tier, seed, results)
        EXTRA_ENV.clear()
        ACTIVE_BIN[0] = None
    cs_stats = {}
    if ok and prop == "C08":
        # "... or added to a change set": the ledger of the changeset domain (instrumented amounts) belongs to C08 too
        import dom_changeset
        v, cs_stats = dom_changeset.ledger_pass(prop, tier, seed)
        violations += v
    if ok and prop == "C19":
        # "... clear ..." of a change set: ChangeSet::clear interrupted by a panicking destructor (changeset domain)
        import dom_changeset
        v, cs_stats = dom_changeset.fault_pass(prop, tier, seed)
        violations += v
    conc_stats = {}
    if ok and prop == "C17":
        # "creations ... through all paths": creations racing through shared access (scheduled at the H1 yield points
        # and on real threads), judged by the driver's C17 monitor on the conc domain
        import dom_conc
        v, conc_stats = dom_conc.c17_pass(tier, seed)
        violations += v
    # evidence
    stats = {}
    for r in results:
        for k, v in r["stats"].items():
            if isinstance(v, int):
                stats[k] = stats.get(k, 0) + v
    samples = []
    if ok:
        lines, _, _ = None, None, None
        import subprocess
        sample_tail = ["gen", str(seed), "2", "8"] if spec["kind"] == "ent" else ["sgen", str(seed), "2", "10", spec["focus"][0]]
        s = subprocess.run([vlib.hbin(BIN)] + sample_tail, capture_output=True, text=True, env=henv()).stdout.splitlines()
        samples = [l for l in s if not l.startswith("domain")][:40]
    n_thm = len(lean.get("theorems", []))
    n_ok = len([n for n in lean.get("theorems", []) if n in lean.get("axioms", {}) and set(lean["axioms"][n]) <= vlib.ALLOWED_AXIOMS]) if lean["ok"] else 0
    all_diffs = sum(len(r["diff"]) for r in results)
    rel = [relevant(prop, r) for r in results]
    coverage = {
        "obligations": n_thm, "discharged": n_ok,
        "checker_cmd": f"cd lean && lake build SpecsModel.Props.{prop} && lake env lean Audit/{prop}.lean" + (f" && lake env leanchecker SpecsModel.Props.{prop}" if tier == "thorough" else ""),
        "trusted_base": vlib.TRUSTED_BASE,
        "theorems": lean.get("theorems", []),
        "axioms_used": sorted({a for n in lean.get("axioms", {}) for a in lean["axioms"][n]}),
        "evaluations": stats.get("cases", 0),
        "distinct_nontrivial": stats.get("distinct_nontrivial", 0),
        "rule": "cases = op histories executed on the real specs::World and replayed through the Lean model and the property monitors; "
                "bounded-exhaustive over a 14-symbol entity alphabet / a 16-symbol per-kind storage alphabet plus seeded random histories over 12 storage kinds "
                "(probing every logged handle, every mask and every event channel after each mutating op); "
                "a case is non-trivial when it reuses an index, has a failing deletion, accesses through a dead handle, runs a nested lazy script, "
                "produces a change event or destroys a value; distinct = distinct op scripts (hash), counted by the driver",
        "traces_validated_against_impl": stats.get("cases", 0),
        "transcript_lines": stats.get("lines", 0),
        "model_vs_impl_disagreements": {"in_projection": sum(len(d) for _, d in rel), "all_ops": all_diffs},
        "impl_vs_monitor_failures": sum(len(m) for m, _ in rel),
        "branch_hits": {k: stats.get(k, 0) for k in ("reuses", "err_kills", "dead_access", "nested", "events", "destroyed", "faults", "leaked")},
        "ops_by_kind": {k[3:]: v for k, v in stats.items() if k.startswith("op_")},
        "runs": [r["label"] for r in results],
        "changeset_ledger": cs_stats,
        "concurrent_creation_pass": conc_stats,
        "samples": samples,
        "exhaustive": False,
    }
    assumptions = [
        "theorems are about the Lean model; the model is tied to /repo only on the explored histories (differential run above)",
        "indices < 2^24 and fewer than 2^31 reuses of one index (Nat/Int in the model)",
        "handles passed to operations were returned earlier by the same world (no forged handles)",
    ]
    vlib.write_evidence(prop, tier, seed, coverage, assumptions, time.time() - t0, violations)
    return 1 if violations else 0


def mon_pass(prop, tier, seed, foci=("any", "many")):
    """A pass other domains' checks add: world-domain histories judged only by the driver's `MON <prop>` lines (verdicts of
    monitors that live in the world loop but belong to another property, e.g. the lending-join look-ups of C06).
    Returns (violations, stats)."""
    ok, blog = vlib.build_harness([BIN])
    if not ok:
        return 0, {"skipped": "h_world does not build"}
    runs = [(f"sgen-{f}-{i}", ["sgen", str(seed * 1000 + 500 + 10 * i + j), "350" if tier == "quick" else "2500", "45", f])
            for i in range(1 if tier == "quick" else 4) for j, f in enumerate(foci)]
    with ThreadPoolExecutor(max_workers=8) as ex:
        results = list(ex.map(run_one, runs))
    violations, seen = 0, set()
    for r in results:
        ms = [m for m in r["mon"] if m.split()[1] == prop]
        if not ms:
            continue
        m = ms[0]
        cid = vlib.field(m, "case")
        EXTRA_ENV.clear(); ACTIVE_BIN[0] = None
        ops = case_ops(r, cid)[:int(vlib.field(m, "line"))]
        def still(o):
            return any(x.split()[1] == prop for x in run_script_ops(o)["mon"])
        if still(ops):
            ops = vlib.ddmin(ops, still)
        canon = vlib.canonical(ops)
        if canon in seen:
            continue
        seen.add(canon)
        path = vlib.write_replay(prop, f"world-{seed}-{len(seen)}",
                                 [f"property {prop} (world-domain pass): look-ups through lending joins of one storage",
                                  f"monitor verdict on the implementation's transcript: {m}",
                                  f"found by: h_world {' '.join(r['tail'])} (case {cid}); minimised by ddmin",
                                  f"replay: bin/check {prop} --replay <this file>"], ops, "world")
        print(f"VIOLATION property={prop} replay={path}")
        violations += 1
        if violations >= 2:
            break
    stats = {}
    for r in results:
        for k, v in r["stats"].items():
            if isinstance(v, int):
                stats[k] = stats.get(k, 0) + v
    return violations, {"runs": [r["label"] for r in results], "cases": stats.get("cases", 0), "lines": stats.get("lines", 0)}


def replay(prop, path):
    if "# domain changeset" in open(path).read():
        import dom_changeset
        return dom_changeset.replay(prop, path)
    if "# domain conc" in open(path).read():
        import dom_conc
        return dom_conc.replay(prop, path)
    LEDGER["on"] = bool(PROPS.get(prop, {}).get("ledger"))
    ok, blog = vlib.build_harness([BIN])
    if not ok:
        print(blog); return 2
    EXTRA_ENV.clear()
    if "# build: np" in open(path).read():
        okn, blogn = vlib.build_harness_np()
        if not okn:
            print(blogn); return 2
        ACTIVE_BIN[0] = vlib.hbin_np("h_world_np")
    for l in open(path):
        if l.startswith("# env ") and "=" in l:
            k, v = l[6:].strip().split("=", 1)
            EXTRA_ENV[k] = v
    lines, hrc, err = vlib.pipe_to_driver([hb(), "run", path], env=henv())
    for l in lines:
        print(l)
    r = vlib.parse_driver(lines)
    if prop not in PROPS:
        mons, diffs = [m for m in r["mon"] if m.split()[1] == prop], []
    else:
        mons, diffs = relevant(prop, r)
    if mons or diffs:
        print(f"VIOLATION property={prop} replay={path}")
        return 1
    return 0
