#!/usr/bin/env python3
"""Regenerates MANIFEST.json from the table below (keeps it valid at all times)."""
import json, os
V = os.path.dirname(os.path.dirname(os.path.abspath(__file__)))
props = [json.loads(l) for l in open(os.path.join(V, "properties.jsonl"))]
ALL = [p["id"] for p in props]

WORLD_NOTE = ("Theorems are about the hand-written Lean model (lean/SpecsModel/Model/Entity.lean, EWorld.lean); the model is tied to "
              "/repo's working tree by the differential run only (bounded-exhaustive + random histories). Trusted: Lean kernel, axioms "
              "propext/Classical.choice/Quot.sound, the harness, the line protocol, bin/check. Indices < 2^24 and < 2^31 reuses per index; "
              "no forged handles.")
HOOK_COMMITS = ["81a403f", "95e1e2b"]   # H1 yield points (entity allocator), H3 caller-driven split tree (par_join)
CLAIMED = {
    "C01": dict(
        text="Lean theorems (C01.handles_unique, C01.no_shared_index, C01.no_panic) prove for every op sequence of the allocator/world-entity model that "
             "returned handles are pairwise distinct and two not-dead handles never share an index, via the AllocInv invariant and a refinement to the abstract "
             "EntSpec; the same EntSpec monitor is run on the implementation's transcripts, and the model is compared line by line with the real World on "
             "bounded-exhaustive and random histories.",
        technique="Lean 4 proof (invariant + refinement to abstract spec) on a hand-written model; differential correspondence check + executable monitor",
        design="7/C01", note=WORLD_NOTE),
    "C02": dict(
        text="Lean theorem C02.timeline_refinement: every transcript of the model is accepted by the abstract create/delete/maintain timeline (is_alive = membership in live, "
             "deletion results incl. failing batch position = live-prefix rule, entities join = live set ascending, no panic); corollaries dead_stays_dead, delete_dead_unchanged, "
             "batch_prefix, delete_all_empty on the spec. Correspondence: every logged handle is queried after every mutating op on the real World.",
        technique="Lean 4 proof (refinement to abstract timeline spec) on a hand-written model; differential correspondence check + executable monitor",
        design="7/C02", note=WORLD_NOTE),
    "C17": dict(
        text="Lean theorems C17.monitor_accepts / created_below_peak / peak_is_running_max / no_index_leaked prove index < running peak of not-dead entities for every history "
             "(failing and repeating batches included) of the model of the repaired Allocator::kill; Findings/F1.lean refutes the unrepaired function. The peak monitor runs on "
             "the implementation's transcripts.",
        technique="Lean 4 proof (NoLeak invariant + counting argument) on a hand-written model; differential correspondence check + executable peak monitor",
        design="7/C17", note=WORLD_NOTE + " Finding F1 (fixed: 6e6c7d5) recorded in known_findings.txt."),
}
STORE_NOTE = ("Theorems are about the hand-written Lean model (lean/SpecsModel/Model/{Storages,Storage,World}.lean mirroring storage/*.rs, world_ext.rs, lazy.rs); "
              "the model and the abstract spec (Spec/WorldSpec.lean) are tied to /repo's working tree by the differential run only (seeded random histories over 12 storage kinds, "
              "bounded-exhaustive per-kind alphabets). Trusted: Lean kernel, axioms propext/Classical.choice/Quot.sound, harness, line protocol, bin/check; shrev EventChannel = append-only log, "
              "crossbeam SegQueue = FIFO, hibitset BitSet = finite set (Level A); indices < 2^24; handles passed to ops were returned earlier by the same world.")
CLAIMED.update({
    "C03": dict(
        text="Lean theorems C03.get_dead / contains_dead / getMut_dead / insert_dead / remove_dead / entry_dead / getMutOrDefault_dead / getOther_dead / world_dead_handle_inert: for EVERY storage state of "
             "every kind and every allocator state, each handle-taking access path through a handle the allocator reports dead returns the absent result and leaves the whole masked storage (mask, contents, "
             "event channel) literally unchanged; lifted to the world model for any history. The abstract WorldSpec monitor (dead handle => absent) runs on the implementation's transcripts; stale-heavy random and "
             "bounded-exhaustive histories compare the real World with the model line by line.",
        technique="Lean 4 proof (per-path lemmas on a hand-written model, universally quantified over states) + differential correspondence check + executable abstract-spec monitor",
        design="7/C03", note=STORE_NOTE + " The lending-join lookup path is covered with C06."),
    "C11": dict(
        text="Lean theorems on an executable model of shred 0.16.1's stage builder (insert/insertion_target/find_conflict/remove_ids/improves_balance, barriers, group capacity) and of dispatch execution "
             "(stages in order, groups of a stage in any interleaving of atomic steps, AtomicRefCell counters). For every item list: the builder never panics and places every system exactly once "
             "(placed_exactly_once), parallel groups never conflict (parallel_groups_conflict_free), dependencies sit in an earlier stage or earlier in the same group (dependencies_placed_before). Given "
             "borrowed = declared (specs_table, specs_tuples_borrow_what_they_declare: proved for the specs table and all tuples), for every schedule: no fetch panics (no_fetch_panics), a writer never overlaps "
             "another reader or writer (writer_never_overlaps), every system runs exactly once (every_system_runs_exactly_once), no deadlock (dispatch_always_completes), dependencies respected at run time. "
             "Correspondence: the real DispatcherBuilder layout, the reads()/writes() vectors and the post-fetch borrow state are compared with the model on >1e5 (quick) random graphs; the same graphs are "
             "dispatched on rayon pools of 1-16 threads with instrumented reader/writer counters.",
        technique="Lean 4 proof (builder invariant, execution invariant tying cell counters to outstanding guards, termination measure) on a hand-written model of shred's dispatcher + differential check of "
                  "layout and declaration table + executable monitor over instrumented parallel runs",
        design="7/C11",
        note="Theorems are about the model only. shred 0.16.1 and rayon are modelled, not verified: the builder and the declaration table are tied to the crates by the differential run; the execution semantics "
             "(one rayon task per group, join between stages, fetch = sequence of cell borrows, guards dropped before run_now returns) is an assumption checked only by sampled instrumented runs; hardware memory "
             "model not modelled. Side condition SelfOk (a system's own data tuple must not conflict with itself) is a documented specs restriction, discharged by evaluation for the 108 harness system types. "
             "Not covered: batch/thread-local/async dispatchers, setup/dispose, fetches outside SystemData. Trusted: Lean kernel, propext/Classical.choice/Quot.sound, harness, protocol, bin/check."),
    "C18": dict(
        text="Lean theorems over the whole grammar of type definitions (named/tuple structs, enums with unit/tuple/named variants, any field count, nesting to any depth, generic parameters by dictionary "
             "passing, skip and forwarded attributes): named_struct_into / tuple_struct_into / enum_into / struct_from / enum_from / field_into / field_from / entity_into (derived conversions are the field-wise "
             "definitions: i-th field by the i-th field's own conversion, variant to same-named variant, skipped fields cloned, entities through the marker mapping); round_trip and round_trip_shape "
             "(convert_from(convert_into v) = Ok v whenever ents inverts ids on the visited entities); missing_marker_panics / into_outcomes / from_outcomes (a missing marker is exactly the unwrap panic); "
             "data_field_attrs / data_field_type / data_struct_fields / data_enum_variants (generated data type); storage_default / storage_explicit / storage_implicit_self / storage_append_iff (impl_component). "
             "Correspondence: a seeded program generator emits crates using the real derives on 80 (quick) / 1200 (thorough) drawn definitions plus a corpus, runs them on random values and marker mappings and the "
             "compiled Lean driver predicts every line (data JSON, round-trip verdicts, panic, storage type); a compile error of a generated program is a failure.",
        technique="Lean 4 proof (logical relation + mutual structural induction over a nested inductive grammar) on a hand-written model of the macros' meaning + generated-program differential check against "
                  "the real macros + executable monitor",
        design="7/C18",
        note="Theorems are about the hand-written Lean model of the macros' MEANING (which impl each generated ConvertSaveload call resolves to, evaluation order, clone for skipped fields, the data type as "
             "syntax), not their token output. rustc's type checking and trait resolution of the generated code is trusted. Tied to /repo's specs-derive and src/saveload/mod.rs by the differential run only. Also "
             "trusted: serde/serde_json and SimpleMarker's Serialize as modelled by Derive/Json.lean, std::any::type_name rendering, h_derive.rs, Lean kernel, axioms propext/Quot.sound. Error = Infallible: a "
             "missing marker is an Option::unwrap panic. Integer ranges and string escaping not modelled."),
})
CLAIMED.update({
    "C09": dict(
        text="Lean theorems on the model of LazyUpdate / World::maintain (mutual block step/runScript/runAct/runQueue/maintain, arbitrarily nested lazily executed scripts): a ghost-instrumented mirror of the model "
             "(ghost_is_the_model) logs every queue pop; runs_in_queue_order and queued_by_running_action_runs_later_same_maintain (events of one maintain = entry queue tags in order followed by the tags issued while it ran); "
             "exactly_once (for any op list from the empty world and any fuel: handled tags strictly increasing hence no tag twice, across any number of maintains; handled ++ queued = all tags issued); nothing_left_over "
             "(explicit fuel bound from a size measure of the queue, result independent of fuel beyond it); after_merge_and_purge (the queue starts on the merged and purged world); lazy_insert_dead_target_skipped / "
             "lazy_insert_live_target_applied / lazy_remove_target_exact (generation-checked at the moment the action runs; only that storage and that index change). Correspondence: histories mixing lazy and direct ops with "
             "nested scripts (closures creating/deleting entities and queueing further closures) are run on the real World; nested results are printed and compared; the abstract queue monitor (WorldSpec) checks FIFO order, "
             "exactly-once and nothing-left-over on the implementation's transcript.",
        technique="Lean 4 proof (conservation law + queue invariant by mutual induction on fuel; fuel-sufficiency by size measure) on a hand-written model + differential correspondence check + executable abstract-queue monitor",
        design="7/C09", note=STORE_NOTE + " FIFO/left-over theorems assume maintain does not panic (excluded by Alloc.Inv and the storage invariants of C04/C05). A script that itself calls maintain, or drop_world inside a script, are covered by the ghost log (discard events) but not generated by the harness."),
    "C12": dict(
        text="Lean theorems for both wrappers over every inner kind (no reachability assumption, any allocator state per op): expected_events (every Storage API op that returns appends exactly the events of DESIGN Appendix C, "
             "gated by the emission flag read at that moment); insertion_event_iff / removal_event_iff (exactly one Inserted / Removed iff the index gained / lost a component); modification_event_iff_mutable_access (flagged: one at the "
             "call; deref-flagged: exactly one per mutable dereference; none without access); reads_emit_nothing; emission_off_emits_nothing; toggled_emission_events; replay_reproduces_membership (sequence level: replaying "
             "Inserted/Removed over the initial mask gives the final mask, for histories without bulk clear); entity_deletion_emits_removed / world_deletion_emits_removed; events_read_returns_appended (reader cursor). "
             "Correspondence: tracked-kind histories with the channel read after every mutating op on the real World (event stream and mask compared with the model; WorldSpec monitor computes the expected stream from the property's table).",
        technique="Lean 4 proof (per-op event characterisation + replay law + induction over op sequences) on a hand-written model + differential correspondence check + executable expected-event monitor",
        design="7/C12", note=STORE_NOTE + " Arbitrary world histories (create/maintain/lazy) are covered at the op-sequence level where each op carries its own allocator state; the lift to World.step is proved for single storage ops, the reader cursor and deleteComponents."),
    "C20": dict(
        text="Lean theorems: same_history_same_transcript (the model is a function of the history); hash_order_never_observable(_seq,_maintain) — non-interference: worlds that differ only in the internal order of hash-map storages "
             "(the one seed-dependent piece of state, modelled as association-list order) give equal results for every op, every history, every fuel, and stay related; observables_independent_of_seed / _of_any_reordering "
             "(re-shuffling every hash storage after every step with any seed or any per-step permutation leaves the transcript unchanged); destruction_order_only_permutes_ledger (destruction order inside one bulk operation only "
             "permutes the multiset of destroyed values). Check: every harness command is executed three times on the real implementation — plain, fresh process with shifted heap layout and new hash seeds, fresh process iterating the "
             "cases in reverse order — and the transcripts must be identical case by case; the plain run is also replayed through the deterministic Lean model.",
        technique="Lean 4 proof (non-interference by mutual induction over the world model) + run-vs-run equality of real executions in fresh processes + differential correspondence check",
        design="7/C20", note=STORE_NOTE + " Serialised output (save/load marker mapping order) and multi-storage join order belong to domains outside the World model and rest on the run-vs-run comparison of their harnesses when present (C06/C14 domains); "
             "cross-storage drop order at world teardown is not seeded in the model (within-store order is)."),
})
SL_NOTE = ("Theorems are about the hand-written Lean model lean/SpecsModel/SaveLoad/Model.lean (on top of Model/Entity.lean), tied to /repo's working tree by the differential run only (corpus + seeded random "
           "round-trip worlds and histories, two worlds exchanging data). Trusted: Lean kernel, axioms propext/Classical.choice/Quot.sound, the harness, the line protocol, bin/check; serde, serde_json and ron round-trip "
           "the EntityData sequence (the harness re-parses produced text with serde only); the ConvertSaveload derive generates the per-field conversions the model assumes (C18); HashMap order is never observed "
           "(mapping read only through lookups; dumps sorted). The model's allocator is SimpleMarkerAllocator; UuidMarkerAllocator differs only in the choice of fresh ids (random, assumed never to repeat) and is covered "
           "by the correspondence check with uuids renamed by first appearance. Marker ids and indices unbounded in the model (u64 counter overflow out of scope; indices < 2^24). No forged handles; markers are removed "
           "only by deleting the entity.")
CLAIMED.update({
    "C04": dict(
        text="Lean theorems: a representation relation Rep between every storage kind (vec with uninitialised slots, dense with its three tables, default-filled vec, hash map, B-tree, null, both tracking wrappers) and a plain "
             "partial map, preserved by every UnprotectedStorage function under exactly the preconditions the mask provides (StoreRep: get_ok, insert_ok, poke_ok, remove_ok incl. the dense swap_remove + redirect, clean_ok); "
             "every Storage API function refines the map operation for arbitrary allocator states and handles (C04.get_refines ... getMutOrDefault_refines, entry in all 3x3 cases, drain, clear, dropAll) and never reaches "
             "panic/ub; sequence_refines: for every kind, every allocator and EVERY op list the model's result list equals the plain map's and the final state represents the final map; slice laws slice_vec / slice_dvec "
             "(default elsewhere) / slice_dense (List.Perm of the stored values) and their harness-level forms; clear_after_sequence. Correspondence: random histories over all 12 kind/wrapper combinations incl. far-apart "
             "indices (63/64, 4095/4096), bounded-exhaustive per-kind alphabets; the abstract WorldSpec monitor IS a plain map per storage and checks every result, mask, count, slice on the implementation's transcript.",
        technique="Lean 4 proof (representation invariant per storage kind + refinement to a plain map, induction over op sequences) on a hand-written model + differential correspondence check + executable map monitor",
        design="7/C04", note=STORE_NOTE + " Values stored in the null kind are the unit value 0 (valOk side condition, the only hypothesis of the sequence theorem)."),
    "C05": dict(
        text="Lean theorems: reachable_invariant — every world reachable by ANY op list (all creation/deletion paths, failing and repeating batches, delete_all, maintain with arbitrarily nested lazily executed scripts, "
             "registration of any kind by any of the three paths at any time, all storage API ops, restricted joins, drop_world) and any fuel satisfies WInv: allocator coupled to the entity timeline, every storage well "
             "formed (so no op panics), every storage is in the meta table that delete_components walks, and a component exists only at an index occupied by a not-dead entity (components_only_at_occupied, "
             "every_storage_in_table); deletion_purges_everywhere (after delete_entities, incl. failure part-way, no storage holds a component of a killed handle); maintain_purges_before_queue; new_entity_starts_empty "
             "(any creation path, reused index or not, merged or not); untouched_entities_keep_components (frame). Correspondence: histories over up to 12 storages registered by random paths at random times, masks of all "
             "storages dumped after every mutating op; monitor: no mask bit at an index of no not-dead entity, map contents unchanged for others.",
        technique="Lean 4 proof (world invariant preserved by every operation, mutual induction over the fuel of the maintain/lazy-script recursion) on a hand-written model + differential correspondence check + executable monitor",
        design="7/C05", note=STORE_NOTE),
    "C14": dict(
        text="Lean theorems C14.roundtrip / serialize_succeeds_iff / serialize_records / roundtrip_recursive / recursive_fails_only_on_dead: for the world reached by every history (any entities, any subset marked, any "
             "components, arbitrary reference graphs incl. self loops, cycles, forward references, dead and stale handles) serialize succeeds exactly when every entity referenced by a marked entity is marked, writes one "
             "record per marked entity in join order, and loading the records in ANY order into an empty world yields a world whose entities are exactly the images under phi (= the entity carrying the same marker id) of "
             "the marked source entities: phi preserves markers, is injective and onto, component types are present iff present in the source with equal values and entity fields mapped through phi, entity counts agree. "
             "serialize_recursive marks exactly the reference closure, changes nothing else, and the same round trip holds. The same statements run as an executable monitor on the implementation's roundtrip transcripts "
             "(SimpleMarker and UuidMarker, JSON and RON) and the model is compared line by line with the real crate.",
        technique="Lean 4 proof (invariant + step-wise functional specification of deserialize / serialize / the recursive work list) on a hand-written model; differential correspondence check + executable bijection monitor",
        design="7/C14", note=SL_NOTE + " Known finding F2 (unrepaired, known_findings.txt): with serde_json a unit-struct component is lost on the round trip (Some(unit) and None both serialise as null); exhibited by the unit_roundtrip probe of h_saveload, whose specification is the property statement itself because the model has no unit-struct component type; printed as KNOWN-FINDING, every other rejection is still a VIOLATION."),
    "C15": dict(
        text="Lean theorems C15.marker_invariant / mapping_stale_or_right / markers_unique / only_serialisers_panic / mark_marked / mark_unmarked / deserialize_merges / reload_creates_nothing: after every history of create / "
             "component writes / mark / delete (all paths incl. failing batches) / maintain / allocator.maintain / serialize / serialize_recursive / deserialize of arbitrary data (own, foreign, repeated, duplicate markers, "
             "dangling references, ids above the counter) every marker id carried by a not-dead entity is below the allocator's counter, carried by no other not-dead entity, and mapped to that entity; a mapping entry "
             "naming a not-dead entity is never wrong (only stale); mark on a marked entity returns its marker and changes nothing; deserialize keeps every known id on its entity, creates exactly one entity per unknown "
             "mentioned id and none otherwise, leaves the carrier of each record id with exactly the record's components (absent types removed), and a repeated load creates nothing. The uniqueness / merge / mark monitors "
             "run on the implementation's transcripts and the model is compared line by line (dump of join, allocator counter and mapping, component masks after every step).",
        technique="Lean 4 proof (inductive invariant over all histories + functional specification of retrieve_entity / deserialize) on a hand-written model; differential correspondence check + executable uniqueness/merge/mark monitors",
        design="7/C15", note=SL_NOTE + " Out of the property's quantifier and not claimed: removing a marker component directly from a live entity."),
})
CLAIMED.update({
    "C13": dict(
        text="Lean theorems on the model of restrict()/restrict_mut() joins and the PairedStorage item API (World.rjoinLoop): join_refines_reference (the whole join, for every storage representing any map and every action "
             "list, equals a pure reference semantics on the plain map; no panic; every other storage and field unchanged); visits_exactly_the_members (indices = mask.toList, strictly ascending, each once); "
             "read_equals_direct_lookup; write_changes_only_that_entity; other_entity_lookup_follows_storage_rule (get_other / get_other_mut ARE Storage::get / get_mut on that handle, so dead and stale handles read as absent and "
             "change nothing, citing C03); membership_never_changes (literal mask equality); modification_events_only_for_mutable_fetches (flagged: one Modified per get_mut / hitting get_other_mut; deref-flagged: one per mutable "
             "dereference; nothing for skip/get/get_other, misses and read-only views). Correspondence: restricted joins with scripted per-item actions (skip/get/get_mut+write/get_other/get_other_mut with live, dead, stale and "
             "component-less handles) on the real World via lend_join / join, results and event streams compared with the model and the abstract monitor.",
        technique="Lean 4 proof (refinement of the join loop to a reference semantics on plain maps, induction over the visited indices) on a hand-written model + differential correspondence check + executable monitor",
        design="7/C13", note=STORE_NOTE + " Written values for the null kind must be the unit value (actsOk side condition, vacuous for all other kinds). The parallel variant of the restricted join is covered by C07."),
    "C19": dict(
        text="Lean theorems on the world model under a panicking destructor (Model/Fault.lean: the n-th destructor call of a non-zero value panics inside refused insert / unused or_insert argument / entity deletion by any path / "
             "maintain / clear / world teardown, with the state each site leaves behind read off the Rust): fault_leaves_world_well_formed (for EVERY reachable world, op, n and resolution of which remaining values std's containers "
             "still destroyed, the world invariant holds again: allocator coupled to the entity timeline, every storage well formed, every storage in the meta table; only the indices whose purge was cut short are exempted from "
             "components-only-at-occupied-indices); continuation_stays_well_formed (every further history keeps it, so every later op returns normally and refines the plain map of C04 — nothing can read a moved-out or destroyed slot); "
             "purge_step_removes_what_it_destroys (bit cleared and value moved out before it is destroyed: no double drop); interrupted_purge_frame; interrupted_clear_reports_empty (mask swapped out first); "
             "interrupted_bulk_destroys_subset; insertion_after_fault_is_kept (in every storage a fault leaves behind, insert of a live handle returns normally, sets the bit, keeps the value readable and touches no other entry). Correspondence: the harness arms a panicking Drop at position n (instrumented components), catches the unwind (and, `uins`, performs insertions from a scope guard's destructor WHILE a destructor panic unwinds — the same model op as a plain insertion), prints the destroyed values and a full dump of every storage; the "
             "model predicts result, destroyed multiset and dump; the monitor checks no value destroyed twice, no destroyed value visible in any dump/lookup, and that the rest of the history (through drop_world) conforms.",
        technique="Lean 4 proof (world invariant with an exemption set, re-established after every interrupted operation and preserved by every continuation) on a hand-written fault model + fault-injection differential check + ledger/exposure monitor",
        design="7/C19", note=STORE_NOTE + " Zero values (unit value of the null storage, default fillers) never panic in model and harness; faults inside lazily queued actions are not modelled nor injected; which of the remaining values "
             "Vec/HashMap/BTreeMap::clear and the world's resource map still destroy after a panic is taken from the run (required to be a sub-multiset of what the complete operation destroys). A second panic during unwinding aborts and is outside the property."),
})
CLAIMED.update({
    "C08": dict(
        text="Lean theorems on the world model with a ghost accounting wrapper (values moved in / handed back read off every op and its result, at top level and inside lazily executed scripts nested to any depth; "
             "world_is_model_world: the wrapper computes the model): ledger_balances (for EVERY well-typed history and fuel: held + destroyed + handed back = moved in as multisets of tokens), "
             "each_value_returned_or_destroyed_once (distinct tokens in => no token twice among destroyed ++ returned, none of them still held), never_leaked_once_world_dropped / exactly_once_after_drop "
             "(after drop_world nothing is held, the queue is empty, destroyed ++ returned is a permutation of moved in), no_operation_exposes_invalid_slot (+ _step, + nested: no op of any history reaches the model's "
             "'ub' outcome = read of a moved-out / never-written slot, nor panics), per-operation laws remove_returns_the_stored_value_once, overwrite_returns_old_keeps_new, clear_destroys_each_value_once, "
             "entity_deletion_destroys_each_component_once, null_storage_values_are_unit, default_fillers_are_not_tokens. Correspondence: the harness stores instrumented components whose Drop logs the token; every transcript line "
             "carries the multiset destroyed by that op and the model must predict it (DIFF); the ledger monitor (WorldSpec) checks on the implementation's transcript alone that no token is destroyed/returned twice and that "
             "drop_world leaves nothing unaccounted.",
        technique="Lean 4 proof (conservation law by mutual induction over ops/scripts/queue; no-exposure from the world invariant) on a hand-written model + differential correspondence check with instrumented destructors + executable ledger monitor",
        design="7/C08", note=STORE_NOTE + " Hypothesis scriptOk of the conservation theorems: values of the zero-sized (null) kind are the unit value 0. Statements are about non-zero tokens (0 = unit value and default filler). "
             "Destruction inside std containers is taken as 'each element once' (Vec/HashMap/BTreeMap clear/drop). Panicking destructors are the subject of C19."),
    "C16": dict(
        text="Lean theorems on an executable model of ChangeSet (mask + DenseVecStorage with its three tables): add_never_fails, build_ok / content / build_eq_fromIter (EVERY pair sequence fed by from_iter, extend, add or any "
             "mixture builds, without panic/ub, a structurally sound set holding for each index exactly the concatenation of its amounts in arrival order and nothing for other indices), extend_after_fromIter, join_shared / "
             "join_mut / join_mut_append (joined with ANY other-members mask: one item per common index, ascending, each accumulated amount exactly once, set unchanged resp. updated in place), consume_exactly_once / "
             "consume_all / consume_remainder_is_clean (by-value join stopped after n items: yielded ++ destroyed-by-drop is a permutation of the accumulated amounts), clear_empties, per_entity_eq_per_index + "
             "alive_handles_consistent (per-entity = per-index for handles alive together) and same_index_other_generation_shares_slot (the excluded case, stated and observed). Correspondence: random scripts on the real "
             "ChangeSet with instrumented amounts (arrival order visible, Drop logged) joined with real storages and the entities resource; model compared line by line incl. destruction; C16 monitor on the implementation's transcript.",
        technique="Lean 4 proof (dense-storage representation invariant + refinement to per-index accumulation, induction over pair sequences and join prefixes) on a hand-written model + differential correspondence check + executable monitor",
        design="7/C16", note="Model: lean/SpecsModel/ChangeSet/Model.lean (hand-written from src/changeset.rs and DenseVecStorage). hibitset BitSet/BitAnd/BitIter are taken as finite set, intersection and ascending iteration (their "
             "verification is C06/C07); JoinIter calls get once per index of the combined mask. Amounts are integer sequences under concatenation (any non-commutative AddAssign). Trusted: Lean kernel, propext/Classical.choice/Quot.sound, harness, line protocol, bin/check."),
    "C10": dict(
        text="Lean theorems on a small-step model of the shared-access phase (one tick per atomic step of Allocator::allocate_atomic / kill_atomic / EntityCache::pop_atomic / atomic_increment / atomic_decrement incl. CAS retry and "
             "spurious compare_exchange_weak failure, LazyUpdate queue push, is_alive, entities join) for ANY start allocator satisfying the sequential invariant, ANY number of threads and programs, and EVERY schedule (unbounded): "
             "reach_inv (phase invariant), handles_distinct, created_alive_from_return, alive_stable, delete_alive_ok (a completed delete returns Ok iff the handle was alive at phase start or created in the phase), no_panic "
             "(pop_atomic slot index and del_err in bounds), trace_grows, quiescent_nothing_lost (every created handle raised, every requested deletion recorded, every queued tag in the queue exactly once), after_maintain "
             "(composition with the sequential theorems: alive = initial + created - requested, AllocInv holds again), start_of_history (any sequential history yields a valid start). Correspondence: hook H1 puts a yield point at "
             "each atomic step; h_conc runs REAL threads on a real World serialised along a schedule, prints each completed call, and the Lean driver replays the same schedule on the model; every schedule of small thread/program "
             "sets is enumerated, larger ones sampled; an unserialised stress mode samples real preemption against the monitor.",
        technique="Lean 4 proof (inductive invariant over all interleavings of a small-step model, composed with the sequential allocator refinement) + schedule-controlled differential correspondence check on real threads + executable monitor",
        design="7/C10", note="Partial with respect to the runtime: interleavings are sequentially consistent; hardware reorderings of the Relaxed atomics, crossbeam SegQueue internals and hibitset AtomicBitSet internals are outside the model "
             "(SegQueue = atomic FIFO, add_atomic = one fetch_or) and only sampled by the stress mode. Requires source hook H1 (cfg specs_verif). Trusted: Lean kernel, propext/Classical.choice/Quot.sound, harness scheduler, line protocol, bin/check."),
})
CLAIMED.update({
    "C06": dict(
        text="Lean theorems C06.join_items / join_indices / keys_exact / keys_ascending prove, for every world, every member list (any arity, any mix of &storage, &mut storage, !&storage, .maybe(), &entities, bit-set expressions, "
             "restricted storages, drains, entries, change sets) and every visitor, that the join has defined behaviour (no unchecked access outside a mask), visits exactly the indices in every required and no negated member, once "
             "each, ascending, and that the item at an index is read from the pre-join world (closed form of the loop); item_is_lookup / maybe_some_iff: components equal the direct lookup, .maybe() is Some iff member; write_frame / "
             "join_frame / join_writes_visible / join_maybe_writes_visible / join_drain_removes: a write through an item changes that index of that store only; lend_same_items / lend_get_iff / lend_get_unchecked_iff: the lending "
             "iterator visits the same list and get(e) is Some iff e alive and in the mask. Level B (level_b_next / level_b_enumerates / level_b_bitset / level_b_world / level_b_join_keys): hibitset's BitIter over the four-layer "
             "representation - BitSets built by any add/remove history, the And/Or/Not/Xor/All composites and the BitAnd tree of the tuple - yields exactly the Level-A key list; Level C (level_c_words / level_c_index / level_c_next / level_c_enumerates / level_c_bitset_ops / level_c_composites / level_c_bitset / level_c_join_keys): the same for 64-bit words with the "
             "Rust word operations (the word <-> position-list correspondence is a theorem, not an assumption). The spec (filter of candidate indices by per-member "
             "membership + direct lookups, recomputed independently of the model) runs as monitor on the real crate's transcripts; the model (Level A and B) is compared item by item on 56 statically typed shapes over random worlds "
             "up to 3*10^5 entities and raw bit sets up to 2^24-1.",
        technique="Lean 4 proof (closed form of the join loop; invariant-free refinement of hibitset's BitIter) on a hand-written two-level model; differential correspondence check on statically typed join shapes + independent executable spec monitor",
        design="7/C06", note="Theorems are about the hand-written Lean model (lean/SpecsModel/Join/Model.lean, HiBitSet.lean); tied to /repo's working tree by the differential run only. hibitset is modelled at three levels: "
             "A sets, B four layers of ascending position lists, C four layers of 64-bit words with the Rust word operations transcribed literally (trailing_zeros, mask arithmetic, shifts, Row/offset arithmetic, BitIter::next, "
             "BitSet::add/remove/contains, the ops.rs composites); level_c_* theorems prove C refines B refines A, so the former word<->position-list assumption is now a theorem. Still trusted: Rust's primitive integer operations read as Nat "
             "operations below 2^64; Vec growth of BitSet layers (a word beyond len reads as 0), the bool results of add/remove and AtomicBitSet atomics are not modelled. Exercised on masks straddling 63/64, 4095/4096, 262143/262144 and indices up to 2^24-1. Storage-kind internals are abstracted to mask+values (C04). Exclusive borrows of one tuple are pairwise "
             "distinct (Rust borrow checker) - hypothesis MutDistinct of the write-back theorems. 64-bit target, indices < 2^24. Trusted: Lean kernel, axioms propext/Classical.choice/Quot.sound, the harness, the line protocol, bin/check."),
    "C07": dict(
        text="Lean theorems, for every world, every par-admissible member list, every visitor and EVERY split tree: C07.par_perm_seq - leaf by leaf the parallel join delivers the items of exactly its own keys and all leaves together "
             "a permutation of the sequential join's items (List.Perm), with defined behaviour; leaves_disjoint - leaves are pairwise index-disjoint and keep ascending order; any_schedule_same_post - for any order or item-level "
             "interleaving of the leaf executions the items are a permutation of the sequential ones and the post-state (kind, mask, event channel, every value of every store) is the sequential post-state, because writes at distinct "
             "indices commute for the kinds of the DistinctStorage table (table_kinds_are_quiet; a kernel-checked counterexample shows FlaggedStorage must stay out). Level A takes the key splitter as a parameter with contract SplitOK; "
             "Level B (level_b_splitOK / level_b_leaves / level_b_par_perm_seq) proves the contract for the model of hibitset's BitProducer::split (three levels, descend on a single bit, average_ones arbitrary) on every producer "
             "reachable from a fresh iterator, end to end over the layered tuple mask; Level C (level_c_average_ones / level_c_split / level_c_splitOK / level_c_leaves / level_c_par_perm_seq) does it for 64-bit words with the real average_ones. Correspondence: hook H3 drives explicit split trees (all 677 trees of depth <= 4, random trees to depth 12), leaf contents compared exactly with "
             "the Level-B model; real par_join().for_each/map/collect on rayon pools of 1,2,3,8,16,64,128 threads; capability table diff.",
        technique="Lean 4 proof (permutation + commutation over arbitrary split trees and schedules; splitter contract proved for the BitProducer model) on a hand-written model; differential check with deterministic split-tree enumeration (hook H3), rayon pool sampling, type-level capability probes",
        design="7/C07", note="Theorems are about the hand-written Lean model (lean/SpecsModel/Join/ParJoin.lean, HiBitSet.lean, Model.lean); tied to /repo by the differential run only. rayon is a parameter (arbitrary finite split tree, "
             "arbitrary schedule at item granularity: one get+visit is atomic); the real work-stealing scheduler is only sampled. hibitset modelled at three levels (sets / position lists / 64-bit words; level_c_split, level_c_average_ones, level_c_par_perm_seq: the word-level BitProducer::split with the REAL average_ones "
             "(proved overflow-free, result < 64, None exactly on words with at most one bit) refines the list-level split, whose contract SplitOK is proved for any average_ones). The Rust memory model below item granularity is the DistinctStorage contract itself and is not modelled. Needs hook H3 "
             "(hooks/H3_par_join_drive.patch, committed in /repo under cfg specs_verif) for the split-tree part. 64-bit target, indices < 2^24. Trusted: Lean kernel, axioms propext/Classical.choice/Quot.sound, the harness, the line protocol, bin/check."),
})
checks = []
for pid in ALL:
    if pid in CLAIMED:
        c = CLAIMED[pid]
        checks.append({
            "property_id": pid,
            "quick_cmd": f"bin/check {pid} --tier quick",
            "thorough_cmd": f"bin/check {pid} --tier thorough",
            "evidence_file": f"/verif/evidence/{pid}.json",
            "replay_cmd_template": f"bin/check {pid} --replay {{path}}",
            "engine": "lean-model+harness",
            "level_claimed": {"category": "proof", "text": c["text"], "design_ref": c["design"]},
            "level_note": c["note"],
            "technique": c["technique"],
        })
na = [{"property_id": pid, "reason": "not yet claimed: machinery for this property is still being built (see DESIGN.md section 7); no technique switch intended"}
      for pid in ALL if pid not in CLAIMED]
m = {
    "version": 1,
    "setup_cmd": "bin/setup",
    "hooks": {
        "guard": "--cfg specs_verif",
        "enable": "RUSTFLAGS='--cfg specs_verif' (set by bin/check and bin/setup when building harness/ against /repo)",
        "baseline_off_cmd": "cd /repo && cargo test --workspace --no-fail-fast --offline",
        "source_commits": HOOK_COMMITS,
        "add_only": True,
    },
    "engines": [{"name": "lean-model+harness", "path": "/verif/lean + /verif/harness + /verif/bin",
                 "serves_properties": sorted(CLAIMED),
                 "kind_free_text": "Lean 4 model + kernel-checked theorems; Rust differential harness driving the real crate; compiled Lean driver comparing transcripts and running property monitors"}],
    "checks": checks,
    "not_applicable": na,
    "notes": "See DESIGN.md (section 0 is the as-built summary). known_findings.txt: F1 (C17) fixed in /repo by a fix: commit; F2 (C14: unit-struct components are lost on a serde_json round trip) is a recorded, unrepaired finding printed as KNOWN-FINDING by bin/check C14. seeded/ holds 75+ confirmed breaking changes written by independent sub-agents and what detects each.",
}
json.dump(m, open(os.path.join(V, "MANIFEST.json"), "w"), indent=1)
print("claimed", sorted(CLAIMED), "unclaimed", len(na))
