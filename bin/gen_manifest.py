#!/usr/bin/env python3
"""Regenerates MANIFEST.json from the table below (keeps it valid at all times)."""
import json, os
V = os.path.dirname(os.path.dirname(os.path.abspath(__file__)))
props = [json.loads(l) for l in open(os.path.join(V, "properties.jsonl"))]
ALL = [p["id"] for p in props]

WORLD_NOTE = ("Theorems are about the hand-written Lean model (lean/SpecsModel/Model/Entity.lean, EWorld.lean); the model is tied to "
              "/repo's working tree by the differential run only (bounded-exhaustive + random histories). Trusted: Lean kernel, axioms "
              "propext/Classical.choice/Quot.sound, the harness, the line protocol, bin/check. Indices < 2^24 and < 2^31 reuses per index; "
              "no forged handles.")
CLAIMED = {
    "C01": dict(
        text="Lean theorems (C01.handles_unique, C01.no_shared_index, C01.no_panic) prove for every op sequence of the allocator/world-entity model that "
             "returned handles are pairwise distinct and two not-dead handles never share an index, via the AllocInv invariant and a refinement to the abstract "
             "EntSpec; the same EntSpec monitor is run on the implementation's transcripts, and the model is compared line by line with the real World on "
             "bounded-exhaustive and random histories.",
        technique="Lean 4 proof (invariant + refinement to abstract spec) on a hand-written model; differential correspondence check + executable monitor",
        design="7/C01", note=WORLD_NOTE),
    "C02": dict(
        text="Lean theorem C02.timeline_refinement: every transcript of the model is accepted by the abstract create/delete/maintain timeline (is_alive = membership in live, "
             "deletion results incl. failing batch position = live-prefix rule, entities join = live set ascending, no panic); corollaries dead_stays_dead, delete_dead_unchanged, "
             "batch_prefix, delete_all_empty on the spec. Correspondence: every logged handle is queried after every mutating op on the real World.",
        technique="Lean 4 proof (refinement to abstract timeline spec) on a hand-written model; differential correspondence check + executable monitor",
        design="7/C02", note=WORLD_NOTE),
    "C17": dict(
        text="Lean theorems C17.monitor_accepts / created_below_peak / peak_is_running_max / no_index_leaked prove index < running peak of not-dead entities for every history "
             "(failing and repeating batches included) of the model of the repaired Allocator::kill; Findings/F1.lean refutes the unrepaired function. The peak monitor runs on "
             "the implementation's transcripts.",
        technique="Lean 4 proof (NoLeak invariant + counting argument) on a hand-written model; differential correspondence check + executable peak monitor",
        design="7/C17", note=WORLD_NOTE + " Finding F1 (fixed: 6e6c7d5) recorded in known_findings.txt."),
}
checks = []
for pid in ALL:
    if pid in CLAIMED:
        c = CLAIMED[pid]
        checks.append({
            "property_id": pid,
            "quick_cmd": f"bin/check {pid} --tier quick",
            "thorough_cmd": f"bin/check {pid} --tier thorough",
            "evidence_file": f"/verif/evidence/{pid}.json",
            "replay_cmd_template": f"bin/check {pid} --replay {{path}}",
            "engine": "lean-model+harness",
            "level_claimed": {"category": "proof", "text": c["text"], "design_ref": c["design"]},
            "level_note": c["note"],
            "technique": c["technique"],
        })
na = [{"property_id": pid, "reason": "not yet claimed: machinery for this property is still being built (see DESIGN.md section 7); no technique switch intended"}
      for pid in ALL if pid not in CLAIMED]
m = {
    "version": 1,
    "setup_cmd": "bin/setup",
    "hooks": {
        "guard": "--cfg specs_verif",
        "enable": "RUSTFLAGS='--cfg specs_verif' (set by bin/check and bin/setup when building harness/ against /repo)",
        "baseline_off_cmd": "cd /repo && cargo test --workspace --no-fail-fast --offline",
        "source_commits": [],
        "add_only": True,
    },
    "engines": [{"name": "lean-model+harness", "path": "/verif/lean + /verif/harness + /verif/bin",
                 "serves_properties": sorted(CLAIMED),
                 "kind_free_text": "Lean 4 model + kernel-checked theorems; Rust differential harness driving the real crate; compiled Lean driver comparing transcripts and running property monitors"}],
    "checks": checks,
    "not_applicable": na,
    "notes": "See DESIGN.md. known_findings.txt lists fixed/known findings. Genuine defect F1 repaired in /repo by a fix: commit.",
}
json.dump(m, open(os.path.join(V, "MANIFEST.json"), "w"), indent=1)
print("claimed", sorted(CLAIMED), "unclaimed", len(na))
