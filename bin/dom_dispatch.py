"""Dispatch domain (h_dispatch): random system graphs on the real specs::DispatcherBuilder (property C11).

Transcript per case: `sys …`/`barrier` lines (the graph), `build => <stage/group layout>` (from the
builder's Debug impl), `run <threads> <reps> => <what the instrumented systems saw>`; one `table`
case with reads()/writes() and post-fetch borrow state of every SystemData kind.  The Lean driver
diffs declarations and layout against SpecsModel.Dispatch.Model and runs the C11 monitor over the
implementation's own reports.
"""
import glob, os, subprocess, sys, time
from concurrent.futures import ThreadPoolExecutor
import vlib

BIN = "h_dispatch"
PROP = "C11"
WHAT = ("systems dispatched in parallel: every system runs exactly once, a writer of a storage never overlaps another "
        "reader/writer of it, declared dependencies are respected, no borrow conflict; storage handles borrow exactly what they declare")
TRAILER = ["build", "run 1 1", "run 4 4", "run 8 4"]
STRESS_ROUNDS = 25


def plan(tier, seed):
    runs = []
    for f in sorted(glob.glob(os.path.join(vlib.VERIF, "corpus", "dispatch", "*.ops"))):
        runs.append(("corpus:" + os.path.basename(f), ["run", f], {}))
    if tier == "quick":
        # layouts only (no dispatching): many graphs
        for i in range(4):
            runs.append((f"layout{i}", ["gen", str(seed * 1000 + i), "25000", "40", "0"], {"H_DISPATCH_SPIN": "0"}))
        # graphs built and dispatched on real pools
        for i in range(8):
            runs.append((f"gen{i}", ["gen", str(seed * 1000 + 100 + i), "2500", "40", "1"], {}))
        runs.append(("small", ["gen", str(seed * 1000 + 200), "5000", "6", "1"], {}))
        # the process-wide rayon pool smaller than every dispatcher pool
        runs.append(("global1", ["gen", str(seed * 1000 + 400), "1500", "12", "1"], {"H_GLOBAL_POOL": "1"}))
        runs.append(("global2", ["gen", str(seed * 1000 + 401), "1500", "12", "1"], {"H_GLOBAL_POOL": "2"}))
        runs.append(("wide", ["gen", str(seed * 1000 + 300), "500", "40", "1"], {"H_DISPATCH_SPIN": "400"}))
    else:
        for i in range(16):
            runs.append((f"layout{i}", ["gen", str(seed * 1000 + i), "80000", "40", "0"], {"H_DISPATCH_SPIN": "0"}))
        for i in range(32):
            runs.append((f"gen{i}", ["gen", str(seed * 1000 + 100 + i), "8000", "40", "1"], {}))
        for i in range(4):
            runs.append((f"small{i}", ["gen", str(seed * 1000 + 200 + i), "25000", "6", "1"], {}))
        for i in range(8):
            runs.append((f"wide{i}", ["gen", str(seed * 1000 + 300 + i), "3000", "40", "1"], {"H_DISPATCH_SPIN": "400"}))
        for i, n in enumerate(["1", "2", "3", "1", "2", "5"]):
            runs.append((f"global{n}-{i}", ["gen", str(seed * 1000 + 400 + i), "6000", "20", "1"], {"H_GLOBAL_POOL": n}))
    return runs


def pipe(tail, env=None, keep=None, timeout=3000):
    """`h_dispatch <tail> | specs_model` with extra environment for the harness."""
    e = dict(os.environ)
    e.update(env or {})
    hp = subprocess.Popen([vlib.hbin(BIN)] + tail, stdout=subprocess.PIPE, stderr=subprocess.PIPE, env=e)
    src = hp.stdout
    tee = None
    if keep:
        tee = subprocess.Popen(["tee", keep], stdin=hp.stdout, stdout=subprocess.PIPE)
        src = tee.stdout
    dp = subprocess.Popen([vlib.DRIVER], stdin=src, stdout=subprocess.PIPE, text=True)
    hp.stdout.close()
    try:
        out, _ = dp.communicate(timeout=timeout)
    except subprocess.TimeoutExpired:
        hp.kill(); dp.kill()
        return ["HANG harness or driver exceeded time limit"], -9, ""
    err = hp.stderr.read().decode(errors="replace")[-2000:]
    hrc = hp.wait()
    return out.splitlines(), hrc, err


def run_one(args):
    label, tail, env = args
    lines, hrc, err = pipe(tail, env)
    r = vlib.parse_driver(lines)
    r.update({"label": label, "tail": tail, "env": env, "hrc": hrc, "err": err})
    return r


WIDE = {"H_DISPATCH_SPIN": "20000"}   # long systems: concurrent groups really overlap in time


def run_script(lines, rounds=1, env=None):
    """Runs a script (graph lines + trailer) through harness and driver."""
    path = os.path.join(vlib.TMP, f"dscript-{os.getpid()}-{time.time_ns()}.ops")
    with open(path, "w") as f:
        f.write("case s\n" + "\n".join(lines) + "\n")
    tail = ["run", path] if rounds <= 1 else ["stress", path, str(rounds)]
    out, hrc, err = pipe(tail, env, timeout=300)
    os.unlink(path)
    r = vlib.parse_driver(out)
    r["hrc"] = hrc
    return r


def normalise(lines):
    """The script as the harness executes it (dependencies on removed systems dropped)."""
    path = os.path.join(vlib.TMP, f"dnorm-{os.getpid()}-{time.time_ns()}.ops")
    with open(path, "w") as f:
        f.write("case s\n" + "\n".join(l for l in lines if is_graph_line(l)) + "\n")
    out = subprocess.run([vlib.hbin(BIN), "run", path], capture_output=True, text=True).stdout.splitlines()
    os.unlink(path)
    graph = [l.split(" => ")[0] for l in out if is_graph_line(l.split(" => ")[0])]
    return graph + [l for l in lines if not is_graph_line(l)]


def case_lines(r, case_id):
    path = os.path.join(vlib.TMP, f"dtr-{os.getpid()}-{time.time_ns()}.txt")
    pipe(r["tail"], r["env"], keep=path)
    ops = vlib.extract_case(path, case_id)
    os.unlink(path)
    return ops


def reason(mon_line):
    """`MON C11 case=.. line=.. <reason> …` -> reason tag."""
    ts = mon_line.split()
    return ts[4] if len(ts) > 4 else "?"


def is_graph_line(l):
    return l.startswith("sys ") or l == "barrier"


RUNTIME = ("panic-escaped-dispatch", "overlap-observed", "system-not-run-exactly-once-per-dispatch",
           "dependency-order-violated-at-run-time", "run-count-list-length")


def genv(r):
    """The part of a run's environment that belongs to the input (and therefore into the replay)."""
    return {k: v for k, v in (r.get("env") or {}).items() if k == "H_GLOBAL_POOL"}


def shrink(ops, why, env=None):
    """ddmin over the graph lines; the trailer (build + runs) is kept."""
    graph = [l for l in ops if is_graph_line(l)]
    if not graph:
        return ops
    runtime = why in RUNTIME
    def still(g):
        rr = run_script(g + TRAILER, STRESS_ROUNDS if runtime else 1, dict(WIDE if runtime else {}, **(env or {})))
        return any(reason(m) == why for m in rr["mon"])
    if not still(graph):
        # not reproducible with the standard trailer: keep the original script
        return ops
    graph = vlib.ddmin(graph, still)
    return normalise(graph + TRAILER)


def exhibit(ops, env=None):
    """Tries to make the real dispatcher misbehave on a graph: returns the MON line of a run-time failure."""
    graph = [l for l in ops if is_graph_line(l)]
    if not graph:
        return None
    # no `build` line: the per-case monitor reports its first rejection only, and here the run-time one is wanted
    rr = run_script(graph + [l for l in TRAILER if l != "build"], 4 * STRESS_ROUNDS, dict(WIDE, **(env or {})))
    for m in rr["mon"]:
        if reason(m) in RUNTIME:
            return m
    return None


def search_from_diff(tier, seed):
    """Correspondence broke without a monitor failure: stress random graphs for a property failure."""
    n = "300" if tier == "quick" else "3000"
    keep = os.path.join(vlib.TMP, f"dsearch-{os.getpid()}.txt")
    lines, hrc, err = pipe(["gen", str(seed * 7919 + 13), n, "12", "1"], {"H_DISPATCH_SPIN": "400"}, keep=keep)
    r = vlib.parse_driver(lines)
    found = None
    if r["mon"]:
        cid = vlib.field(r["mon"][0], "case")
        found = (vlib.extract_case(keep, cid), r["mon"][0])
    os.unlink(keep)
    return found


def report_failures(tier, seed, results):
    known = [k for k in vlib.known_findings() if k["property"] == PROP]
    violations = 0
    seen = set()
    searched = False
    for r in results:
        crashed = r["hrc"] != 0 or r["hang"] or r["bad"]
        if not r["mon"] and not r["diff"] and not crashed:
            continue
        if r["mon"]:
            # one report per distinct reason in this run
            by_reason = {}
            for m in r["mon"]:
                by_reason.setdefault(reason(m), m)
            for why, m in by_reason.items():
                cid = vlib.field(m, "case")
                ops = case_lines(r, cid)
                if cid == "table" or not any(is_graph_line(l) for l in ops):
                    ops = ["table"]
                    extra = []
                else:
                    ops = shrink(ops, why, genv(r))
                    extra = []
                    if why not in RUNTIME:
                        ex = exhibit(ops, genv(r))
                        extra = [f"the same graph dispatched on real rayon pools: {ex}" if ex else
                                 "stress runs of this graph on real rayon pools did not exhibit an overlap or panic (layout-level violation only)"]
                canon = why + ":" + vlib.canonical([l for l in ops if is_graph_line(l) or l == "table"])
                if why in seen:
                    continue
                seen.add(why)
                kf = [k for k in known if k["match"] == canon]
                if kf:
                    print(f"KNOWN-FINDING: property={PROP} {kf[0]['text']}")
                    continue
                path = vlib.write_replay(PROP, f"{seed}-{len(seen)}",
                                         [f"property {PROP}: {WHAT}",
                                          f"monitor verdict on the implementation's own reports: {m}"] + extra +
                                         [f"env {k}={v}" for k, v in genv(r).items()] +
                                         [f"found by: h_dispatch {' '.join(r['tail'])} (case {cid}); graph minimised by ddmin over its system lines",
                                          f"replay: bin/check {PROP} --replay <this file>   (run lines are repeated up to {STRESS_ROUNDS} times)"],
                                         ops, "dispatch")
                print(f"VIOLATION property={PROP} replay={path}")
                violations += 1
                if violations >= 4:
                    return violations
        elif r["diff"]:
            d = r["diff"][0]
            cid = vlib.field(d, "case")
            ops = case_lines(r, cid)
            opname = (vlib.field(d, "op") or "[]").strip("[]").split()[:1]
            canon = "diff:" + " ".join(opname)
            if canon in seen:
                continue
            seen.add(canon)
            found = None
            ex = exhibit(ops, genv(r))
            if ex:
                found = (ops, ex)
            elif not searched:
                searched = True
                found = search_from_diff(tier, seed)
            if found:
                fops, m = found
                fops = shrink(fops, reason(m), genv(r) if ex else None)
                path = vlib.write_replay(PROP, f"{seed}-{len(seen)}",
                                         [f"property {PROP}: {WHAT}", f"correspondence broke: {d}",
                                          f"directed search (stress dispatching) found: {m}"] +
                                         ([f"env {k}={v}" for k, v in genv(r).items()] if ex else []), fops, "dispatch")
                print(f"VIOLATION property={PROP} replay={path}")
            else:
                path = vlib.write_replay(PROP, f"corr-{seed}-{len(seen)}",
                                         [f"property {PROP}: {WHAT}",
                                          "the implementation left the Lean model (SpecsModel.Dispatch.Model vs h_dispatch) on this graph;",
                                          "the theorems of SpecsModel.Props.C11 therefore no longer speak about this code.",
                                          f"first divergence: {d}",
                                          "stress dispatching of this graph and of random graphs found no report rejected by the property monitor"],
                                         ops, "dispatch")
                print(f"VIOLATION property={PROP} replay={path} no-failing-input-found")
            violations += 1
        else:
            path = vlib.write_replay(PROP, f"crash-{seed}", [f"harness run {r['label']} did not complete: rc={r['hrc']} {r['hang']} {r['bad'][:2]}", r["err"]])
            print(f"VIOLATION property={PROP} replay={path} no-failing-input-found")
            violations += 1
        if violations >= 4:
            break
    return violations


NP_INFO = {}


def np_table(prop):
    """The declaration / borrow table once more on the build of specs WITHOUT its default `parallel` feature
    (harness/np, binary h_decl_np): what a system-data handle declares must be what its fetch borrows in every
    feature configuration."""
    ok, blog = vlib.build_harness_np()
    if not ok:
        path = vlib.write_replay(prop, "build-np", ["harness/np (specs without the `parallel` feature) does not build against /repo's working tree", blog])
        print(f"VIOLATION property={prop} replay={path} no-failing-input-found")
        return 1
    hp = subprocess.run([vlib.hbin_np("h_decl_np")], stdout=subprocess.PIPE, stderr=subprocess.PIPE, text=True, timeout=300)
    dp = subprocess.run([vlib.DRIVER], input=hp.stdout, stdout=subprocess.PIPE, text=True, timeout=300)
    r = vlib.parse_driver(dp.stdout.splitlines())
    NP_INFO.update({"np_table_lines": len([l for l in hp.stdout.splitlines() if l.startswith("decl ")]), "np_table_rejections": len(r["mon"]) + len(r["diff"])})
    if hp.returncode != 0 or r["mon"] or r["diff"] or r["bad"]:
        first = (r["mon"] + r["diff"] + r["bad"] + [f"h_decl_np exited with {hp.returncode}"])[0]
        path = vlib.write_replay(prop, "np-table",
                                 [f"property {prop}: {WHAT}",
                                  "build: np  (harness/np: specs built WITHOUT its default `parallel` feature)",
                                  f"declaration / borrow table rejected: {first[:600]}",
                                  "transcript of harness/np h_decl_np (each line: what the handle declares, what its fetch really borrows):"]
                                 + hp.stdout.splitlines())
        print(f"VIOLATION property={prop} replay={path}")
        return 1
    return 0


def check(prop, tier, seed, t0):
    assert prop == PROP
    lean = vlib.build_lean(prop, thorough=(tier == "thorough"))
    violations = 0
    if not lean["ok"]:
        path = vlib.write_replay(prop, "proof", [f"theorems of SpecsModel.Props.{prop} do not check: {lean.get('reason')}", lean["log"]])
        print(f"VIOLATION property={prop} replay={path} no-failing-input-found")
        violations += 1
    ok, blog = vlib.build_harness([BIN])
    results = []
    if not ok:
        path = vlib.write_replay(prop, "build", ["the harness does not build against /repo's working tree, so the model cannot be tied to this code", blog])
        print(f"VIOLATION property={prop} replay={path} no-failing-input-found")
        violations += 1
    else:
        # the dispatching runs use real thread pools: do not oversubscribe the machine
        with ThreadPoolExecutor(max_workers=6) as ex:
            results = list(ex.map(run_one, plan(tier, seed)))
        violations += report_failures(tier, seed, results)
        violations += np_table(prop)
    stats = {}
    for r in results:
        for k, v in r["stats"].items():
            if isinstance(v, int):
                stats[k] = stats.get(k, 0) + v
    samples = []
    if ok:
        s = subprocess.run([vlib.hbin(BIN), "gen", str(seed), "2", "6"], capture_output=True, text=True).stdout.splitlines()
        samples = [l for l in s if not l.startswith("domain")][:40]
    n_thm = len(lean.get("theorems", []))
    n_ok = len([n for n in lean.get("theorems", []) if n in lean.get("axioms", {}) and set(lean["axioms"][n]) <= vlib.ALLOWED_AXIOMS]) if lean["ok"] else 0
    coverage = {
        "obligations": n_thm, "discharged": n_ok,
        "checker_cmd": f"cd lean && lake build SpecsModel.Props.{prop} && lake env lean Audit/{prop}.lean" + (f" && lake env leanchecker SpecsModel.Props.{prop}" if tier == "thorough" else ""),
        "trusted_base": vlib.TRUSTED_BASE + [
            "shred 0.16.1 (stage builder, dispatcher, World::fetch on AtomicRefCell) and rayon are MODELLED, not verified: "
            "the stage builder is compared with the model on every generated graph; the execution semantics "
            "(stages sequential, groups of a stage in any interleaving, systems of a group sequential, par_iter joins) is an assumption about rayon/shred "
            "checked only by the instrumented runs",
        ],
        "theorems": lean.get("theorems", []),
        "axioms_used": sorted({a for n in lean.get("axioms", {}) for a in lean["axioms"][n]}),
        "evaluations": stats.get("cases", 0),
        "distinct_nontrivial": stats.get("distinct_nontrivial", 0),
        "rule": "cases = system graphs (2-40 systems over 3 component types x {none,read,write} + Entities + Read<LazyUpdate>, random running times, "
                "dependencies on earlier systems, barriers) given to the real specs::DispatcherBuilder; its stage/group layout and the systems' reads()/writes() "
                "are compared with the Lean model; graphs of the gen*/small*/wide* runs are also dispatched on rayon pools of 1-16 threads with reader/writer counters. "
                "A graph is non-trivial when it has at least one pair of conflicting systems and at least one dependency edge; "
                "distinct = distinct graph scripts (hash), counted by the driver",
        "traces_validated_against_impl": stats.get("cases", 0),
        "transcript_lines": stats.get("lines", 0),
        "model_vs_impl_disagreements": sum(len(r["diff"]) for r in results),
        "impl_vs_monitor_failures": sum(len(r["mon"]) for r in results),
        "branch_hits": {k: stats.get(k, 0) for k in ("systems", "dep_edges", "barriers", "conflict_pairs", "builds", "stages", "groups",
                                                     "par_stages", "shared_groups", "runs", "dispatches", "decls")},
        "runs": [r["label"] for r in results],
        "no_parallel_build": NP_INFO,
        "samples": samples,
        "exhaustive": False,
    }
    assumptions = [
        "theorems are about the Lean model; the model of shred's stage builder and of specs' declaration table is tied to the compiled crates only on the explored graphs (differential run above)",
        "execution semantics of the dispatcher (stage barrier = rayon join, one task per group) is modelled, checked by instrumented runs only (sampled schedules)",
        "each system's own data tuple is self-consistent (no ReadStorage+WriteStorage of one component in one system): specs documents that such a fetch panics by itself",
        "dependencies name systems added earlier under unique names (DispatcherBuilder::add panics otherwise); no batch or thread-local systems",
        "fewer than 2^(usize bits - 1) simultaneous shared borrows of one resource (AtomicRefCell counter)",
    ]
    vlib.write_evidence(prop, tier, seed, coverage, assumptions, time.time() - t0, violations)
    return 1 if violations else 0


def replay(prop, path):
    ok, blog = vlib.build_harness([BIN])
    if not ok:
        print(blog); return 2
    keep = os.path.join(vlib.TMP, f"dreplay-{os.getpid()}.txt")
    env = dict(WIDE)
    for l in open(path):
        if l.startswith("# env ") and "=" in l:
            k, v = l[6:].strip().split("=", 1)
            env[k] = v
    lines, hrc, err = pipe(["stress", path, str(STRESS_ROUNDS)], env, keep=keep)
    for l in open(keep):
        print("  " + l.rstrip())      # the implementation's transcript
    os.unlink(keep)
    for l in lines:
        print(l)
    r = vlib.parse_driver(lines)
    if r["mon"] or r["diff"] or r["bad"] or hrc != 0:
        print(f"VIOLATION property={prop} replay={path}")
        return 1
    return 0
