"""Derive domain (h_derive): C18 — programs drawn from the grammar of type definitions supported by
#[derive(ConvertSaveload)] / #[derive(Component)], compiled with the REAL macros, run, and compared
with the Lean model of the macros (lean/SpecsModel/Derive/Model.lean) by the compiled Lean driver.

A "case" is one (type definition, instantiation) block of a generated program:
    case <id> / type … => storage …  /  conv <value> ids … ents … => into <json> rt <verdict> | panic
A compile error of a generated (grammar-conforming) program is itself a failure.
"""
import os, re, shutil, subprocess, time
import vlib

BIN = "h_derive"
PROP_WHAT = ("derived convert_into/convert_from are the field-wise definitions (declaration order, variant to "
             "same-named variant, skipped fields cloned, entities through the marker mapping) and round-trip under an "
             "inverse marker mapping; derived Component selects the requested storage (<Self> appended iff no type "
             "arguments) or DenseVecStorage")
GEN_ROOT = os.path.join(vlib.BUILD, "derive-gen")
GEN_TARGET = os.path.join(vlib.BUILD, "derive-target")
os.makedirs(GEN_ROOT, exist_ok=True)


def gen_env():
    e = dict(os.environ)
    e.update({"CARGO_NET_OFFLINE": "true", "CARGO_TARGET_DIR": GEN_TARGET, "RUSTFLAGS": "-Awarnings",
              "SPECS_REPO": vlib.REPO})
    return e


class Crate:
    """One generated crate: recipe (seed, n, selectors) -> directory -> build -> transcript -> driver verdicts."""

    def __init__(self, seed, n, selectors=(), tag=None):
        self.seed, self.n, self.selectors = seed, n, list(selectors)
        self.dir = os.path.join(GEN_ROOT, tag or f"s{seed}-n{n}")
        self.bins, self.defs, self.block_def = [], {}, {}
        self.build_log = ""
        self.transcript = os.path.join(self.dir, "transcript.txt")

    def recipe(self):
        return " ".join([f"seed={self.seed}", f"n={self.n}"] + self.selectors)

    def generate(self):
        shutil.rmtree(self.dir, ignore_errors=True)
        os.makedirs(self.dir, exist_ok=True)
        rc, out = vlib.sh([vlib.hbin(BIN), "gen", str(self.seed), str(self.n), self.dir] + self.selectors, env=gen_env(), timeout=600)
        if rc != 0:
            self.build_log = out
            return False
        for line in open(os.path.join(self.dir, "MANIFEST.txt")):
            t = line.split()
            if t[0] == "bins":
                self.bins = t[1:]
            elif t[0] == "def":
                k = int(t[1])
                blocks = t[3].split("=", 1)[1]
                fields = t[4].split("=", 1)[1]
                deps = t[5].split("=", 1)[1] if len(t) > 5 else ""
                self.defs[k] = {"name": t[2], "blocks": [b for b in blocks.split(",") if b], "fields": [f for f in fields.split(",") if f],
                                "deps": [int(d) for d in deps.split(",") if d]}
                for b in self.defs[k]["blocks"]:
                    self.block_def[b] = k
        return True

    def build(self):
        """cargo build of the generated crate (one target dir for all generated crates: the compiled
        specs / serde dependencies are shared)."""
        rc, out = vlib.sh(["cargo", "build", "--offline", "--bins", "--keep-going"], cwd=self.dir, env=gen_env(), timeout=3000)
        self.build_log = out
        return rc == 0

    def run(self):
        """Runs every binary of the crate; returns (ok, stderr tail)."""
        ok, errs = True, ""
        with open(self.transcript, "w") as f:
            f.write("domain derive\n")
            for b in self.bins:
                p = subprocess.run([os.path.join(GEN_TARGET, "debug", b)], stdout=subprocess.PIPE, stderr=subprocess.PIPE, timeout=600)
                f.write(p.stdout.decode(errors="replace"))
                if p.returncode != 0:
                    ok = False
                    errs += f"{b}: rc={p.returncode} {p.stderr.decode(errors='replace')[-1500:]}\n"
        return ok, errs

    def drive(self):
        lines, hrc, err = vlib.pipe_to_driver(["cat", self.transcript], timeout=600)
        r = vlib.parse_driver(lines)
        r["lines"] = lines
        return r

    def all(self):
        """generate + build + run + drive under the generated-crate lock. Returns dict with
        stage ('gen'|'build'|'run'|'ok'), driver results."""
        with vlib.Lock("derive"):
            if not self.generate():
                return {"stage": "gen", "log": self.build_log}
            if not self.build():
                return {"stage": "build", "log": self.build_log}
            ok, errs = self.run()
        r = self.drive()
        r["stage"] = "ok" if ok else "run"
        r["log"] = errs
        return r

    def definitions_text(self):
        """All type definitions of the first binary, as emitted."""
        try:
            src = open(os.path.join(self.dir, "src", "bin", self.bins[0] + ".rs")).read()
        except (OSError, IndexError):
            return ""
        src = src.split("\nfn block_", 1)[0]
        return src.split("include!(\"../common.rs\");", 1)[-1].strip()

    def source_of(self, k):
        """Rust source of definition k as emitted (first binary that contains it)."""
        name = self.defs.get(k, {}).get("name")
        for b in self.bins:
            src = open(os.path.join(self.dir, "src", "bin", b + ".rs")).read()
            m = re.search(r"(#\[derive\(ConvertSaveload[^\n]*\n(?:#\[[^\n]*\n)*(?:struct|enum) " + re.escape(name) + r"\b.*?\n)(?=\n)", src, flags=re.S)
            if m:
                return m.group(1)
        return ""


def transcript_block(path, case_id, line_no=None):
    out, on, n = [], False, 0
    for line in open(path):
        line = line.rstrip("\n")
        if line.startswith("case "):
            on = (line.split()[1] == case_id)
            n = 0
            continue
        if on and line and not line.startswith("#"):
            n += 1
            if line_no is None or n == line_no or n == 1:
                out.append(line)
    return out


def verdicts(r, kind):
    return r["mon"] if kind == "mon" else r["diff"]


def shrink(base, kind, first):
    """A failing (MON or DIFF) line of block `cid`: regenerate only that definition and that line, then
    ddmin over the fields of the definition. Returns (crate, verdict line)."""
    cid = vlib.field(first, "case")
    ln = int(vlib.field(first, "line"))
    k = base.block_def.get(cid)
    if k is None:
        return base, first
    tag = f"shrink-{os.getpid()}"

    def attempt(selectors):
        c = Crate(base.seed, base.n, selectors, tag=tag)
        r = c.all()
        if r["stage"] != "ok":
            return None
        v = [x for x in verdicts(r, kind) if vlib.field(x, "case") == cid]
        return (c, v[0]) if v else None

    best = None
    sel = [f"types={k}"] + ([f"case={cid}:{ln}"] if ln > 1 else [])
    got = attempt(sel)
    if not got:
        sel = [f"types={k}"]
        got = attempt(sel)
        if not got:
            return base, first
    best = (sel, got)
    fields = base.defs[k]["fields"]

    def still(keep):
        nonlocal best
        s = sel + [f"keep={k}:" + ",".join(keep)]
        g = attempt(s)
        if g:
            best = (s, g)
            return True
        return False

    if len(fields) >= 2:
        kept = vlib.ddmin(fields, still)
        # ddmin's last successful call is not necessarily its result: re-establish
        s = sel + [f"keep={k}:" + ",".join(kept)]
        g = attempt(s)
        if g:
            best = (s, g)
    final = Crate(base.seed, base.n, best[0], tag=tag)
    r = final.all()
    v = [x for x in verdicts(r, kind) if vlib.field(x, "case") == cid] if r["stage"] == "ok" else []
    return final, (v[0] if v else best[1][1])


def write_replay(tag, header, crate, extra_lines=()):
    path = os.path.join(vlib.REPLAYS, f"C18-{tag}.txt")
    with open(path, "w") as f:
        for h in header:
            for hl in str(h).splitlines() or [""]:
                f.write("# " + hl + "\n")
        f.write("# domain derive\n")
        f.write("# replay: bin/check C18 --replay <this file>   (regenerates the crate from the recipe, builds it with the real macros, runs it, pipes the transcript to the Lean driver)\n")
        f.write("recipe " + crate.recipe() + "\n")
        for l in extra_lines:
            for ll in str(l).splitlines() or [""]:
                f.write("# " + ll + "\n")
    return path


def error_codes(log):
    """Kinds of compiler errors in a build log (codes, or the message for code-less errors)."""
    codes = set(re.findall(r"^error\[(E\d+)\]", log, flags=re.M))
    for m in re.finditer(r"^error: (.*)$", log, flags=re.M):
        msg = m.group(1)
        if msg.startswith("could not compile") or msg.startswith("aborting"):
            continue
        codes.add(msg[:40])
    return codes


def bisect_build_failure(base):
    """The generated program does not compile: find a minimal set of definitions (then fields) that
    still fails to compile with the same kind of error (removing fields must not trade the failure
    for another one, e.g. an unused type parameter)."""
    tag = f"shrink-{os.getpid()}"
    types = sorted(base.defs.keys())
    last_log = [base.build_log]
    allowed = [error_codes(base.build_log)]

    def fails(ts, extra=()):
        c = Crate(base.seed, base.n, ["types=" + ",".join(str(t) for t in ts)] + list(extra), tag=tag)
        r = c.all()
        if r["stage"] == "build":
            codes = error_codes(r["log"])
            if codes and codes <= allowed[0]:
                last_log[0] = r["log"]
                return True
        return False

    if not types or not fails(types):
        return base, base.build_log
    ts = vlib.ddmin(types, fails) if len(types) >= 2 else types
    # a selected definition drags its dependencies along: prefer a failing dependency on its own
    for _ in range(6):
        if len(ts) != 1:
            break
        sub = [d for d in base.defs[ts[0]]["deps"] if fails([d])]
        if not sub:
            break
        ts = [sub[0]]
    sel = ["types=" + ",".join(str(t) for t in ts)]
    if fails(ts):
        allowed[0] = error_codes(last_log[0])
    if len(ts) == 1:
        k = ts[0]
        fields = base.defs[k]["fields"]
        if len(fields) >= 2:
            kept = vlib.ddmin(fields, lambda keep: fails(ts, [f"keep={k}:" + ",".join(keep)]))
            if len(kept) < len(fields) and fails(ts, [f"keep={k}:" + ",".join(kept)]):
                sel.append(f"keep={k}:" + ",".join(kept))
    final = Crate(base.seed, base.n, sel, tag=tag)
    r = final.all()
    return final, (r.get("log") if r["stage"] == "build" else last_log[0])


def failing_defs(crate, log):
    """Definitions the compiler complains about: maps `--> src/bin/pK.rs:LINE` to the definition
    (or to the definition of the block function) that contains the line."""
    name_to_k = {d["name"]: k for k, d in crate.defs.items()}
    marks = {}
    for b in crate.bins:
        path = os.path.join(crate.dir, "src", "bin", b + ".rs")
        if not os.path.exists(path):
            continue
        ms, pending = [], None
        for i, line in enumerate(open(path), 1):
            if line.startswith("#[derive(ConvertSaveload"):
                pending = i
            m = re.match(r"(?:struct|enum) (T\d+)\b", line)
            if m and m.group(1) in name_to_k:
                ms.append((pending or i, name_to_k[m.group(1)]))
                pending = None
            m = re.match(r"fn block_(\w+)\(", line)
            if m and m.group(1) in crate.block_def:
                ms.append((i, crate.block_def[m.group(1)]))
            if line.startswith("fn main()"):
                ms.append((i, None))
        marks[b] = ms
    bad = set()
    for m in re.finditer(r"--> src/bin/(\w+)\.rs:(\d+)", log):
        b, ln = m.group(1), int(m.group(2))
        cur = None
        for start, k in marks.get(b, []):
            if start <= ln:
                cur = k
        if cur is not None:
            bad.add(cur)
    return bad


def without_failing(crate, log, tag):
    """After a compile failure: the same universe without the definitions rustc rejects (and without
    those that depend on them), so that the accepted rest can still be run. Returns (crate, result) or None."""
    excluded = set()
    cur, cur_log = crate, log
    for _ in range(4):
        bad = failing_defs(cur, cur_log)
        if not bad - excluded:
            return None
        excluded |= bad
        rest = [k for k, d in crate.defs.items() if k not in excluded and not (set(d["deps"]) & excluded)]
        if not rest:
            return None
        c = Crate(crate.seed, crate.n, ["types=" + ",".join(str(k) for k in sorted(rest))], tag=tag)
        r = c.all()
        if r["stage"] != "build":
            return c, r, sorted(excluded)
        cur, cur_log = c, r["log"]
    return None


def error_excerpt(log, limit=60):
    keep = []
    on = False
    for l in log.splitlines():
        if l.startswith("error"):
            on = True
        if on:
            keep.append(l)
        if len(keep) >= limit:
            break
    return "\n".join(keep) if keep else log[-3000:]


def corpus_recipes():
    out = []
    d = os.path.join(vlib.VERIF, "corpus", "derive")
    if os.path.isdir(d):
        for fn in sorted(os.listdir(d)):
            if fn.endswith(".recipes"):
                for line in open(os.path.join(d, fn)):
                    line = line.strip()
                    if line and not line.startswith("#"):
                        t = line.split()
                        kv = dict(x.split("=", 1) for x in t[:2])
                        out.append((int(kv["seed"]), int(kv["n"]), t[2:]))
    return out


def plan(tier, seed):
    """(seed, number of definitions, selectors, tag)"""
    runs = [(s, n, sel, f"corpus{i}") for i, (s, n, sel) in enumerate(corpus_recipes())]
    if tier == "quick":
        sizes = [(seed, 40), (seed + 1000, 40)]
    else:
        sizes = [(seed, 400), (seed + 1000, 400), (seed + 2000, 400)]
    return runs + [(s, n, [], f"{tier}-s{s}-n{n}") for s, n in sizes]


def report(prop, crate, r, seed, idx):
    """Returns number of violations printed for this crate."""
    if r["stage"] == "gen":
        path = write_replay(f"gen-{seed}-{idx}", [f"property {prop}: {PROP_WHAT}", "the program generator itself failed", r["log"][-3000:]], crate)
        print(f"VIOLATION property={prop} replay={path} no-failing-input-found")
        return 1
    if r["stage"] == "build":
        small, log = bisect_build_failure(crate)
        srcs = [small.definitions_text()]
        path = write_replay(f"compile-{seed}-{idx}",
                            [f"property {prop}: {PROP_WHAT}",
                             "a program of the supported grammar using the real derive macros does NOT COMPILE",
                             "(the macros' output is ill-formed or ill-typed for this definition; no run-time input involved)",
                             f"found in: h_derive gen {crate.seed} {crate.n}; minimised by ddmin over definitions and fields"],
                            small, ["--- definition(s) ---"] + srcs + ["--- compiler output ---", error_excerpt(log or "")])
        print(f"VIOLATION property={prop} replay={path} no-failing-input-found")
        # the definitions rustc accepts can still be run: a behavioural failure with a concrete value is more telling
        rest = without_failing(crate, r["log"], tag=f"rest-{os.getpid()}")
        if rest:
            c2, r2, excluded = rest
            r["rest"] = r2
            if r2["stage"] == "ok" and (r2["mon"] or r2["diff"]):
                return 1 + report(prop, c2, r2, seed, f"{idx}r")
        return 1
    n = 0
    if r["stage"] == "run" or r["bad"] or r["hang"]:
        path = write_replay(f"crash-{seed}-{idx}", [f"property {prop}: {PROP_WHAT}", "the generated program or the driver did not complete",
                                                    r.get("log", ""), *r["bad"][:3], *r["hang"][:1]], crate)
        print(f"VIOLATION property={prop} replay={path} no-failing-input-found")
        n += 1
    if r["mon"]:
        small, v = shrink(crate, "mon", r["mon"][0])
        cid = vlib.field(v, "case")
        k = small.block_def.get(cid)
        tr = transcript_block(small.transcript, cid) if os.path.exists(small.transcript) else []
        path = write_replay(f"{seed}-{idx}",
                            [f"property {prop}: {PROP_WHAT}",
                             f"monitor verdict on the implementation's transcript: {v[:600]}",
                             f"found in: h_derive gen {crate.seed} {crate.n} ({len(r['mon'])} rejected lines in that run); minimised (single definition, single value, ddmin over fields)"],
                            small, ["--- definition ---", small.source_of(k) if k is not None else "", "--- transcript of the minimised program ---"] + tr)
        print(f"VIOLATION property={prop} replay={path}")
        n += 1
    elif r["diff"]:
        small, v = shrink(crate, "diff", r["diff"][0])
        cid = vlib.field(v, "case")
        k = small.block_def.get(cid)
        tr = transcript_block(small.transcript, cid) if os.path.exists(small.transcript) else []
        path = write_replay(f"corr-{seed}-{idx}",
                            [f"property {prop}: {PROP_WHAT}",
                             "the implementation left the Lean model (SpecsModel.Derive.Model vs the real macros) on this program;",
                             "the theorems of SpecsModel.Props.C18 therefore no longer speak about this code.",
                             f"first divergence: {v[:600]}",
                             "no line of the run is rejected by the property monitor"],
                            small, ["--- definition ---", small.source_of(k) if k is not None else "", "--- transcript of the minimised program ---"] + tr)
        print(f"VIOLATION property={prop} replay={path} no-failing-input-found")
        n += 1
    return n


def check(prop, tier, seed, t0):
    lean = vlib.build_lean(prop, thorough=(tier == "thorough"))
    violations = 0
    if not lean["ok"]:
        path = vlib.write_replay(prop, "proof", [f"theorems of SpecsModel.Props.{prop} do not check: {lean.get('reason')}", lean["log"]])
        print(f"VIOLATION property={prop} replay={path} no-failing-input-found")
        violations += 1
    ok, blog = vlib.build_harness([BIN])
    results, crates = [], []
    if not ok:
        path = vlib.write_replay(prop, "build", ["the program generator (harness/src/bin/h_derive.rs) does not build", blog])
        print(f"VIOLATION property={prop} replay={path} no-failing-input-found")
        violations += 1
    else:
        for idx, (s, n, sel, tag) in enumerate(plan(tier, seed)):
            c = Crate(s, n, sel, tag=tag)
            tb = time.time()
            r = c.all()
            r["wall_s"] = round(time.time() - tb, 1)
            results.append(r)
            crates.append(c)
            if violations < 3:
                violations += report(prop, c, r, seed, idx)
    # ---- evidence
    stats = {}
    for r in results:
        for k, v in r.get("stats", {}).items():
            if isinstance(v, int):
                stats[k] = stats.get(k, 0) + v
    samples = []
    if crates and os.path.exists(crates[0].transcript):
        with open(crates[0].transcript) as f:
            for line in f:
                if line.startswith("domain"):
                    continue
                samples.append(line.rstrip("\n")[:400])
                if len(samples) >= 24:
                    break
    n_thm = len(lean.get("theorems", []))
    n_ok = len([n for n in lean.get("theorems", []) if n in lean.get("axioms", {}) and set(lean["axioms"][n]) <= vlib.ALLOWED_AXIOMS]) if lean["ok"] else 0
    coverage = {
        "obligations": n_thm, "discharged": n_ok,
        "checker_cmd": f"cd lean && lake build SpecsModel.Props.{prop} && lake env lean Audit/{prop}.lean" + (f" && lake env leanchecker SpecsModel.Props.{prop}" if tier == "thorough" else ""),
        "trusted_base": vlib.TRUSTED_BASE + [
            "rustc's type checking of the generated code (the model is of the macros' meaning, not of their token output)",
            "serde / serde_json and SimpleMarker's Serialize impl as modelled by lean/SpecsModel/Derive/Json.lean; std::any::type_name's rendering of the storage type",
        ],
        "theorems": lean.get("theorems", []),
        "axioms_used": sorted({a for n in lean.get("axioms", {}) for a in lean["axioms"][n]}),
        "evaluations": stats.get("lines", 0),
        "distinct_nontrivial": stats.get("distinct_nontrivial", 0),
        "rule": "evaluations = transcript lines (one storage observation per instantiated type definition + one convert_into / serde_json round trip / "
                "convert_from per generated value and marker mapping) produced by programs that use the real derive macros and replayed through the Lean "
                "model; cases = (definition, instantiation) blocks; distinct = distinct instantiated definitions (hash of the shape text, counted by the "
                "driver); non-trivial = at least 2 fields and at least one entity-valued field",
        "cases": stats.get("cases", 0),
        "distinct": stats.get("distinct", 0),
        "traces_validated_against_impl": stats.get("lines", 0),
        "transcript_lines": stats.get("lines", 0),
        "model_vs_impl_disagreements": sum(len(r.get("diff", [])) for r in results),
        "impl_vs_monitor_failures": sum(len(r.get("mon", [])) for r in results),
        "shape_histogram": {k: stats.get(k, 0) for k in ("named", "tuple", "enums", "generic", "nested", "with_skip", "with_fwd", "with_opaque", "storage_attr", "storage_implicit_self")},
        "branch_hits": {k: stats.get(k, 0) for k in ("into_panic", "rt_eq", "rt_ne", "rt_panic")},
        "runs": [{"recipe": c.recipe(), "stage": r["stage"], "wall_s": r.get("wall_s")} for c, r in zip(crates, results)],
        "samples": samples,
        "exhaustive": False,
    }
    assumptions = [
        "theorems are about the Lean model of the macros' meaning (which impl each generated call resolves to, evaluation order, clone for skipped fields); "
        "the model is tied to /repo's specs-derive and src/saveload/mod.rs only on the generated programs (differential run above)",
        "definitions come from the supported grammar: at least one converted (non-skipped) field, skip only on serde-serializable field types, bounds of generic "
        "parameters in a where clause, nesting depth <= 3, <= 8 fields (the theorems have no such bounds)",
        "a missing marker is a panic (Option::unwrap in impl ConvertSaveload for Entity), Error = Infallible; integer ranges and string escaping are not modelled",
    ]
    vlib.write_evidence(prop, tier, seed, coverage, assumptions, time.time() - t0, violations)
    return 1 if violations else 0


def replay(prop, path):
    recipe = None
    for line in open(path):
        if line.startswith("recipe "):
            recipe = line.split()[1:]
    if not recipe:
        print(f"no recipe line in {path}")
        return 2
    kv = dict(x.split("=", 1) for x in recipe[:2])
    ok, blog = vlib.build_harness([BIN])
    if not ok:
        print(blog)
        return 2
    c = Crate(int(kv["seed"]), int(kv["n"]), recipe[2:], tag=f"replay-{os.getpid()}")
    r = c.all()
    if r["stage"] in ("gen", "build"):
        print(error_excerpt(r["log"]))
        print(f"VIOLATION property={prop} replay={path} no-failing-input-found")
        return 1
    for l in open(c.transcript):
        print(l.rstrip("\n")[:1000])
    for l in r["lines"]:
        print(l[:1500])
    if r["mon"]:
        print(f"VIOLATION property={prop} replay={path}")
        return 1
    if r["diff"] or r["stage"] != "ok" or r["bad"]:
        print(f"VIOLATION property={prop} replay={path} no-failing-input-found")
        return 1
    return 0
