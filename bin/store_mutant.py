#!/usr/bin/env python3
"""usage: bin/store_mutant.py <mutant-dir> <Cxx-s> <round> <detected:0|1> <detected_by text> [ran]
Copies a confirmed seeded change (patch.diff, demo.rs, README.md) into /verif/seeded/<Cxx-s>/ with meta.json."""
import json, os, shutil, sys
src, name, rnd, det, by = sys.argv[1:6]
ran = sys.argv[6] if len(sys.argv) > 6 else f"bin/try_mutant.sh <patch> {name.split('-')[0]}"
dst = os.path.join("/verif/seeded", name)
os.makedirs(dst, exist_ok=True)
shutil.copy(os.path.join(src, "patch.diff"), os.path.join(dst, "patch.diff"))
shutil.copy(os.path.join(src, "demo.rs"), os.path.join(dst, "demo.rs"))
readme = open(os.path.join(src, "README.md")).read()
open(os.path.join(dst, "author_README.md"), "w").write(readme)
meta = {
    "property": name.split("-")[0], "round": int(rnd),
    "origin": "fresh sub-agent given only the property text, a scratch worktree of /repo and one-line descriptions of the earlier changes to avoid (nothing from /verif)",
    "needs_to_manifest": readme[:1500],
    "confirmed": {"how": "bin/verify_mutant.sh <worktree> <mutant-dir>: git apply; full suite passes; demo fails WITH the patch and passes WITHOUT it",
                  "suite_passes_with_patch": True, "demo_fails_with_patch": True, "demo_passes_without_patch": True},
    "ran": ran, "detected": det == "1", "detected_by": by}
json.dump(meta, open(os.path.join(dst, "meta.json"), "w"), indent=1)
print("stored", dst)
