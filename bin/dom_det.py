"""C20: single-threaded behaviour is deterministic and replayable.

Theorems (Props/C20.lean): the model is a function of the history, and the only seed-dependent
internal state the real system has (hash-map internal order, destruction order inside one bulk
operation) never reaches an observable (non-interference). Check: every harness command is run
three times — plain, in a fresh process with a shifted heap layout (new ASLR, new ahash/std hash
seeds), and in a fresh process iterating the cases in reverse order (so every case runs after a
different set of earlier worlds) — and the implementation's transcripts must be identical case by
case; the plain run is also compared with the deterministic Lean model line by line."""
import glob, os, subprocess, sys, time
from concurrent.futures import ThreadPoolExecutor
import vlib
import dom_world

PROP = "C20"
WHAT = "same history => identical handles, results, join orders, event streams and destroyed multisets, in the same process and in fresh processes"


def other_bins():
    """(binary, argv-tail) of other single-threaded domains whose harness exists (joins, save/load)."""
    cmds = []
    for b, tails in (("h_join_h3", [["gen", "{seed}", "60", "small"], ["gen", "{seed}", "30", "mix"]]), ("h_saveload", [["gen", "{seed}", "150", "30"], ["gen", "{seed}", "{detcases}", "40", "det"]]), ("h_changeset", [["gen", "{seed}", "200", "30"]])):
        registered = open(os.path.join(vlib.VERIF, "harness", "BINS")).read().split()
        if b in registered:
            for t in tails:
                cmds.append((b, t))
    return cmds


def plan(tier, seed):
    n = 1 if tier == "quick" else 6
    runs = []
    import glob
    for f in sorted(glob.glob(os.path.join(vlib.VERIF, "corpus", "world", "*.ops"))):
        runs.append(("h_world", ["run", f], False))
    for rep in range(n):
        s = seed * 100 + rep
        runs.append(("h_world", ["gen", str(s), "400", "60"], False))
        for f in ("any", "many", "lazy", "tracked", "ledger", "rjoin", "far", "churn"):
            runs.append(("h_world", ["sgen", str(s), "300" if tier == "quick" else "1500", "45", f], f in ("ledger", "any")))
        for k in (3, 8):   # hash-map storages, plain and tracked
            runs.append(("h_world", ["sexh", str(k), "3"], True))
    return runs


def run_raw(binary, tail, env):
    p = subprocess.run([vlib.hbin(binary)] + tail, stdout=subprocess.PIPE, stderr=subprocess.PIPE, env=env, timeout=1200)
    return p.returncode, p.stdout.decode(errors="replace")


def blocks(text):
    """case id -> list of lines"""
    out, cur = {}, None
    for line in text.splitlines():
        if line.startswith("case "):
            cur = line.split()[1]
            out[cur] = []
        elif cur is not None:
            out[cur].append(line)
    return out


def triple(args):
    binary, tail, ledger, seed = args
    base = dict(os.environ)
    if ledger:
        base["VH_LEDGER"] = "1"
    e1 = dict(base)
    e2 = dict(base); e2["VH_PREALLOC"] = str(seed * 7919 + 13)
    e3 = dict(base); e3["VH_PREALLOC"] = str(seed * 104729 + 7); e3["VH_REVERSE"] = "1"
    r1 = run_raw(binary, tail, e1)
    r2 = run_raw(binary, tail, e2)
    r3 = run_raw(binary, tail, e3)
    b1, b2, b3 = blocks(r1[1]), blocks(r2[1]), blocks(r3[1])
    bad = None
    for cid, lines in b1.items():
        for other, name in ((b2, "fresh process, shifted heap"), (b3, "fresh process, reverse case order")):
            if other.get(cid) != lines:
                ol = other.get(cid) or []
                k = next((i for i in range(min(len(lines), len(ol))) if lines[i] != ol[i]), min(len(lines), len(ol)))
                bad = (cid, name, lines, ol, k)
                break
        if bad:
            break
    # model comparison of the plain run
    # the plain run is also replayed through the deterministic Lean model of its domain (a function of the history alone)
    if binary == "h_join_h3":
        import resource
        def lim():
            resource.setrlimit(resource.RLIMIT_STACK, (resource.RLIM_INFINITY, resource.RLIM_INFINITY))
        dp = subprocess.run([vlib.DRIVER], input=r1[1], stdout=subprocess.PIPE, text=True, timeout=1200, preexec_fn=lim)
    else:
        dp = subprocess.run([vlib.DRIVER], input=r1[1], stdout=subprocess.PIPE, text=True, timeout=1200)
    drv = vlib.parse_driver(dp.stdout.splitlines())
    # (the probe of known finding F2 is outside the model)
    drv["diff"] = [d for d in drv["diff"] if "op=[unit_roundtrip]" not in d]
    return {"binary": binary, "tail": tail, "ledger": ledger, "rc": (r1[0], r2[0], r3[0]), "cases": len(b1), "lines": sum(len(v) for v in b1.values()),
            "bad": bad, "drv": drv}


def check(prop, tier, seed, t0):
    lean = vlib.build_lean(prop, thorough=(tier == "thorough"))
    violations = 0
    if not lean["ok"]:
        path = vlib.write_replay(prop, "proof", [f"theorems of SpecsModel.Props.{prop} do not check: {lean.get('reason')}", lean["log"]])
        print(f"VIOLATION property={prop} replay={path} no-failing-input-found")
        violations += 1
    bins = ["h_world"] + [b for b, _ in other_bins()]
    ok, blog = vlib.build_harness(sorted(set(bins)))
    results = []
    if not ok:
        path = vlib.write_replay(prop, "build", ["the harness does not build against /repo's working tree", blog])
        print(f"VIOLATION property={prop} replay={path} no-failing-input-found")
        violations += 1
    else:
        jobs = [(b, t, l, seed) for b, t, l in plan(tier, seed)]
        for b, t in other_bins():
            jobs.append((b, [x.replace("{seed}", str(seed)).replace("{detcases}", "3000" if tier == "quick" else "15000") for x in t], False, seed))
        with ThreadPoolExecutor(max_workers=5) as ex:
            results = list(ex.map(triple, jobs))
        n = 0
        for r in results:
            if r["bad"]:
                cid, name, l1, l2, k = r["bad"]
                ops = [x.split(" => ")[0] for x in l1 if not x.startswith("in ")]
                path = vlib.write_replay(prop, f"{seed}-{n}",
                                         [f"property {prop}: {WHAT}",
                                          f"two runs of `{r['binary']} {' '.join(r['tail'])}` disagree on case {cid} ({name})",
                                          f"first differing line {k + 1}:", "  run A: " + (l1[k] if k < len(l1) else "<end>"), "  run B: " + (l2[k] if k < len(l2) else "<end>")],
                                         ops, {"h_world": "world", "h_saveload": "saveload", "h_changeset": "changeset", "h_join": "join", "h_join_h3": "join"}.get(r["binary"], "world"))
                print(f"VIOLATION property={prop} replay={path}")
                violations += 1; n += 1
            elif any(c != 0 for c in r["rc"]):
                path = vlib.write_replay(prop, f"crash-{seed}-{n}", [f"harness run {r['binary']} {r['tail']} exited with {r['rc']}"])
                print(f"VIOLATION property={prop} replay={path} no-failing-input-found")
                violations += 1; n += 1
            elif r["drv"]["diff"] or r["drv"]["bad"]:
                d = (r["drv"]["diff"] + r["drv"]["bad"])[0]
                path = vlib.write_replay(prop, f"corr-{seed}-{n}",
                                         [f"property {prop}: {WHAT}", "the runs agree with each other, but the implementation left the deterministic Lean model (SpecsModel.Model.World):",
                                          d, "so the non-interference theorems of SpecsModel.Props.C20 no longer speak about this code",
                                          f"command: {r['binary']} {' '.join(r['tail'])}"])
                print(f"VIOLATION property={prop} replay={path} no-failing-input-found")
                violations += 1; n += 1
            if n >= 3:
                break
    n_thm = len(lean.get("theorems", []))
    n_ok = n_thm if lean["ok"] else 0
    cases = sum(r["cases"] for r in results)
    stats_dn = sum(int(r["drv"]["stats"].get("distinct_nontrivial", 0)) for r in results)
    sample = []
    if ok:
        s = subprocess.run([vlib.hbin("h_world"), "sgen", str(seed), "1", "10", "any"], capture_output=True, text=True).stdout.splitlines()
        sample = s[:30]
    coverage = {
        "obligations": n_thm, "discharged": n_ok,
        "checker_cmd": f"cd lean && lake build SpecsModel.Props.{prop} && lake env lean Audit/{prop}.lean",
        "trusted_base": vlib.TRUSTED_BASE,
        "theorems": lean.get("theorems", []),
        "evaluations": cases * 3,
        "distinct_nontrivial": stats_dn,
        "rule": "every case is executed three times on the real implementation (plain; fresh process with shifted heap layout and new hash seeds; fresh process iterating cases in reverse order) and the three transcripts must be identical; "
                "the plain transcript is also replayed through the deterministic Lean model. distinct_nontrivial as counted by the driver on the plain run (index reuse, dead-handle access, nested lazy script, change event or destruction).",
        "traces_validated_against_impl": cases,
        "runs": [f"{r['binary']} {' '.join(r['tail'])}" for r in results],
        "run_vs_run_disagreements": sum(1 for r in results if r["bad"]),
        "model_vs_impl_disagreements": sum(len(r["drv"]["diff"]) for r in results),
        "samples": sample,
        "exhaustive": False,
    }
    assumptions = ["destruction order inside one bulk clear/drop is printed sorted (it is not an observable per the property)",
                   "hash seeds/addresses vary between processes (ahash RandomState, ASLR); the same-process comparison is by reverse case order"]
    vlib.write_evidence(prop, tier, seed, coverage, assumptions, time.time() - t0, violations)
    return 1 if violations else 0


def replay(prop, path):
    text = open(path).read()
    if "# domain saveload" in text:
        import dom_saveload
        return dom_saveload.replay("C14", path)
    if "# domain changeset" in text:
        import dom_changeset
        return dom_changeset.replay("C16", path)
    if "# domain join" in text:
        import dom_join
        return dom_join.replay("C06", path)
    return dom_world.replay("C04", path)
