"""Saveload domain (h_saveload): marker / serialize / deserialize histories on two real specs::Worlds.

Serves C14 (round trip) and C15 (merge by marker, marker ids unique). The Lean theorems are in
lean/SpecsModel/Props/C14.lean, C15.lean over the model lean/SpecsModel/SaveLoad/Model.lean; the harness
harness/src/bin/h_saveload.rs drives the real crate (SimpleMarker + UuidMarker, JSON + RON); the driver
domain lean/Driver/SaveLoadDom.lean replays every op on the model (DIFF) and runs the C14 / C15 monitors on
the implementation's transcript alone (MON)."""
import glob, os, random, subprocess, sys, time
from concurrent.futures import ThreadPoolExecutor
import vlib

BIN = "h_saveload"
DOMAIN = "saveload"
# An op of the real code that does not return within this time is reported by the harness as `=> hang`.
os.environ.setdefault("VH_OP_TIMEOUT_MS", "2000")

# Per property: monitor tags that decide it and the op kinds whose results form its projection of the
# transcript (a model/implementation DIFF on another op kind is the other property's business).
PROPS = {
    "C14": {"mon": ["C14"],
            "proj": ["roundtrip", "serialize", "serialize_rec", "deserialize", "dump", "cfg"],
            "what": "serialising a world and loading the result into an empty world gives exactly one entity per marked "
                    "(recursive: reference-closed) source entity with the same marker, equal components and references "
                    "mapped to the carriers of the referenced markers"},
    "C15": {"mon": ["C15"],
            "proj": ["mark", "load", "deserialize", "dump", "create", "del_now", "del_batch", "del_atomic", "maintain",
                     "alloc_maintain", "setp", "setr", "sete", "serialize_rec", "cfg"],
            "what": "loading merges by marker (in place for known ids, one new entity per unknown id, absent components "
                    "removed); no two live entities ever share a marker id; mark on a marked entity returns its marker"},
}


def plan(tier, seed):
    """Harness invocations for a tier: (label, argv-tail)."""
    runs = []
    for f in sorted(glob.glob(os.path.join(vlib.VERIF, "corpus", DOMAIN, "*.ops"))):
        runs.append(("corpus:" + os.path.basename(f), ["run", f]))
    if tier == "quick":
        for i in range(12):
            runs.append((f"mix{i}", ["gen", str(seed * 1000 + i), "6000", "30", "mix"]))
        for i in range(8):
            runs.append((f"rt{i}", ["gen", str(seed * 1000 + 20 + i), "6000", "30", "rt"]))
        for i in range(8):
            runs.append((f"hist{i}", ["gen", str(seed * 1000 + 40 + i), "1500", "120", "hist"]))
        for i in range(4):
            runs.append((f"histlong{i}", ["gen", str(seed * 1000 + 60 + i), "40", "1500", "hist"]))
    else:
        for i in range(32):
            runs.append((f"mix{i}", ["gen", str(seed * 1000 + i), "15000", "40", "mix"]))
        for i in range(16):
            runs.append((f"rt{i}", ["gen", str(seed * 1000 + 100 + i), "15000", "30", "rt"]))
        for i in range(16):
            runs.append((f"hist{i}", ["gen", str(seed * 1000 + 200 + i), "4000", "150", "hist"]))
        for i in range(16):
            runs.append((f"histlong{i}", ["gen", str(seed * 1000 + 300 + i), "60", "2500", "hist"]))
    return runs


def run_one(args):
    label, tail = args
    lines, hrc, err = vlib.pipe_to_driver([vlib.hbin(BIN)] + tail)
    r = vlib.parse_driver(lines)
    if any("did not terminate" in x for x in r["mon"]) or any("impl=[hang]" in x for x in r["diff"]):
        # the harness' per-op watchdog is a wall-clock judgement; on a loaded machine a descheduled thread looks like a
        # hang. Run the invocation again with a 60 s per-op limit: only an op that still does not return is reported.
        env = dict(os.environ); env["VH_OP_TIMEOUT_MS"] = "60000"
        lines, hrc, err = vlib.pipe_to_driver([vlib.hbin(BIN)] + tail, env=env)
        r = vlib.parse_driver(lines)
        r["retried_after_watchdog"] = True
    r["label"], r["tail"], r["hrc"], r["err"] = label, tail, hrc, err
    return r


def relevant(prop, r):
    spec = PROPS[prop]
    mons = [m for m in r["mon"] if m.split()[1] in spec["mon"] or m.split()[1] == "C00"]
    diffs = []
    for d in r["diff"]:
        op = (vlib.field(d, "op") or "[]").strip("[]").split()
        if op and op[0] in spec["proj"]:
            diffs.append(d)
    return mons, diffs


def run_script_ops(ops):
    """Runs an op script through harness and driver; returns parsed driver output."""
    path = os.path.join(vlib.TMP, f"sl-script-{os.getpid()}-{time.time_ns()}.ops")
    with open(path, "w") as f:
        f.write("case s\n" + "\n".join(ops) + "\n")
    lines, hrc, err = vlib.pipe_to_driver([vlib.hbin(BIN), "run", path], timeout=120)
    os.unlink(path)
    r = vlib.parse_driver(lines)
    r["hrc"] = hrc
    return r


def case_ops(r, case_id):
    path = os.path.join(vlib.TMP, f"sl-tr-{os.getpid()}-{time.time_ns()}.txt")
    vlib.pipe_to_driver([vlib.hbin(BIN)] + r["tail"], keep=path)
    ops = vlib.extract_case(path, case_id)
    os.unlink(path)
    return ops


TAILS = ["dump A", "dump B", "roundtrip A plain", "roundtrip A rec", "roundtrip B plain", "serialize A", "serialize B",
         "serialize_rec A", "deserialize A #0", "deserialize B #0", "deserialize A #1", "deserialize B #1",
         "mark A @0", "mark A @1", "mark B @0", "mark A @2", "create A now", "create B atomic", "maintain A",
         "maintain B", "alloc_maintain A", "del_now A @0", "del_atomic A @1", "del_now B @0",
         "load A m=0 p=1 r=- e=-", "load A m=9 p=- r=9,0 e=-", "load B m=1 p=- r=- e=one:0", "setr A @0 @1 @0"]


def search_from(prop, base_ops, tier, seed):
    """Correspondence broke without a monitor failure: look for a property failure in continuations of the
    diverging script (every single continuation op, then random continuations; a dump after each op)."""
    rng = random.Random(seed)
    n = 300 if tier == "quick" else 3000
    conts = [[t] for t in TAILS] + [[a, b] for a in TAILS[:12] for b in TAILS[:12]]
    for _ in range(n):
        conts.append([rng.choice(TAILS) for _ in range(rng.randint(2, 10))])
    path = os.path.join(vlib.TMP, f"sl-cont-{os.getpid()}.ops")
    with open(path, "w") as f:
        for i, c in enumerate(conts):
            f.write(f"case c{i}\n" + "\n".join(base_ops) + "\n")
            for op in c:
                f.write(op + "\n")
                w = op.split()[1] if len(op.split()) > 1 and op.split()[1] in ("A", "B") else "A"
                if not op.startswith("dump"):
                    f.write(f"dump {w}\n")
    keep = os.path.join(vlib.TMP, f"sl-cont-{os.getpid()}.txt")
    lines, hrc, err = vlib.pipe_to_driver([vlib.hbin(BIN), "run", path], keep=keep)
    r = vlib.parse_driver(lines)
    mons, _ = relevant(prop, r)
    found = None
    if mons:
        cid = vlib.field(mons[0], "case")
        found = (vlib.extract_case(keep, cid), mons[0])
    for p in (path, keep):
        if os.path.exists(p):
            os.unlink(p)
    return found


KNOWN_SEEN = []


def report_failures(prop, tier, seed, results):
    spec = PROPS[prop]
    known = [k for k in vlib.known_findings() if k["property"] == prop]
    violations = 0
    seen_canon = set()
    for r in results:
        mons, diffs = relevant(prop, r)
        crashed = r["hrc"] != 0 or r["hang"] or r["bad"]
        if not mons and not diffs and not crashed:
            continue
        if mons:
            m = mons[0]
            cid = vlib.field(m, "case")
            tag = m.split()[1]
            if (vlib.field(m, "op") or "") == "[unit_roundtrip]" and vlib.field(m, "fmt"):
                # the probe builds its own worlds: only the case's format matters (no need to regenerate the run)
                ops = [f"cfg simple {vlib.field(m, 'fmt')}", "unit_roundtrip"]
            else:
                ops = case_ops(r, cid)
                ln = int(vlib.field(m, "line"))
                ops = ops[:ln]
            def still(o, tag=tag):
                rr = run_script_ops(o)
                return any(x.split()[1] == tag for x in rr["mon"])
            if still(ops):
                ops = vlib.ddmin(ops, still)
            canon = vlib.canonical(ops)
            if canon in seen_canon:
                continue
            seen_canon.add(canon)
            kf = [k for k in known if k["match"] == canon]
            if kf:
                print(f"KNOWN-FINDING: property={prop} {kf[0]['text']}")
                KNOWN_SEEN.append(kf[0]["match"])
                continue
            rr = run_script_ops(ops)
            verdict = ([x for x in rr["mon"] if x.split()[1] == tag] or [m])[0]
            path = vlib.write_replay(prop, f"{seed}-{len(seen_canon)}",
                                     [f"property {prop}: {spec['what']}",
                                      f"monitor verdict on the implementation's transcript: {verdict}",
                                      f"found by: h_saveload {' '.join(r['tail'])} (case {cid}); minimised by ddmin",
                                      f"replay: bin/check {prop} --replay <this file>"], ops, DOMAIN)
            print(f"VIOLATION property={prop} replay={path}")
            violations += 1
        elif diffs:
            d = diffs[0]
            cid = vlib.field(d, "case")
            ops = case_ops(r, cid)
            ln = int(vlib.field(d, "line"))
            ops = ops[:ln]
            def still_diff(o):
                rr = run_script_ops(o)
                return bool(relevant(prop, rr)[1])
            if still_diff(ops):
                ops = vlib.ddmin(ops, still_diff)
            canon = "diff:" + vlib.canonical(ops)
            if canon in seen_canon:
                continue
            seen_canon.add(canon)
            found = search_from(prop, ops, tier, seed)
            if found:
                fops, m = found
                tag = m.split()[1]
                def still(o, tag=tag):
                    rr = run_script_ops(o)
                    return any(x.split()[1] == tag for x in rr["mon"])
                if still(fops):
                    fops = vlib.ddmin(fops, still)
                kf = [k for k in known if k["match"] == vlib.canonical(fops)]
                if kf:
                    print(f"KNOWN-FINDING: property={prop} {kf[0]['text']}")
                    continue
                path = vlib.write_replay(prop, f"{seed}-{len(seen_canon)}",
                                         [f"property {prop}: {spec['what']}", f"correspondence broke: {d}",
                                          f"directed search from the diverging script found: {m}"], fops, DOMAIN)
                print(f"VIOLATION property={prop} replay={path}")
            else:
                path = vlib.write_replay(prop, f"corr-{seed}-{len(seen_canon)}",
                                         [f"property {prop}: {spec['what']}",
                                          "the implementation left the Lean model (correspondence SpecsModel.SaveLoad.Model vs h_saveload) on this script;",
                                          "the theorems of SpecsModel.Props." + prop + " therefore no longer speak about this code.",
                                          f"first divergence: {d}",
                                          "directed search (single, paired and random continuations) found no transcript rejected by the property monitor"],
                                         ops, DOMAIN)
                print(f"VIOLATION property={prop} replay={path} no-failing-input-found")
            violations += 1
        else:
            path = vlib.write_replay(prop, f"crash-{seed}", [f"harness run {r['label']} did not complete: rc={r['hrc']} {r['hang']} {r['bad'][:2]}", r["err"]])
            print(f"VIOLATION property={prop} replay={path} no-failing-input-found")
            violations += 1
        if violations >= 3:
            break
    return violations


def check(prop, tier, seed, t0):
    spec = PROPS[prop]
    lean = vlib.build_lean(prop, thorough=(tier == "thorough"))
    violations = 0
    if not lean["ok"]:
        path = vlib.write_replay(prop, "proof", [f"theorems of SpecsModel.Props.{prop} do not check: {lean.get('reason')}", lean["log"]])
        print(f"VIOLATION property={prop} replay={path} no-failing-input-found")
        violations += 1
    ok, blog = vlib.build_harness([BIN])
    results = []
    if not ok:
        path = vlib.write_replay(prop, "build", ["the harness does not build against /repo's working tree, so the model cannot be tied to this code", blog])
        print(f"VIOLATION property={prop} replay={path} no-failing-input-found")
        violations += 1
    else:
        with ThreadPoolExecutor(max_workers=16) as ex:
            results = list(ex.map(run_one, plan(tier, seed)))
        violations += report_failures(prop, tier, seed, results)
    stats = {}
    for r in results:
        for k, v in r["stats"].items():
            if isinstance(v, int):
                stats[k] = stats.get(k, 0) + v
    samples = []
    if ok:
        s = subprocess.run([vlib.hbin(BIN), "gen", str(seed), "2", "8", "rt" if prop == "C14" else "hist"],
                           capture_output=True, text=True).stdout.splitlines()
        samples = [l[:400] for l in s if not l.startswith("domain")][:40]
    n_thm = len(lean.get("theorems", []))
    n_ok = len([n for n in lean.get("theorems", []) if n in lean.get("axioms", {}) and set(lean["axioms"][n]) <= vlib.ALLOWED_AXIOMS]) if lean["ok"] else 0
    all_diffs = sum(len(r["diff"]) for r in results)
    rel = [relevant(prop, r) for r in results]
    coverage = {
        "obligations": n_thm, "discharged": n_ok,
        "checker_cmd": f"cd lean && lake build SpecsModel.Props.{prop} && lake env lean Audit/{prop}.lean" + (f" && lake env leanchecker SpecsModel.Props.{prop}" if tier == "thorough" else ""),
        "trusted_base": vlib.TRUSTED_BASE + [
            "serde, serde_json and ron round-trip the EntityData sequence (the model's serialised form is the list of records; both formats are exercised by the harness, which re-parses the produced text with serde only)",
            "the ConvertSaveload derive generates the per-field conversions the model assumes (property C18)",
            "HashMap iteration order is never observed (the model's mapping is read only through lookups; dumps are sorted by the harness)",
            "Uuid::new_v4 never repeats a value (UuidMarker cases: uuids renamed by first appearance coincide with SimpleMarker ids)",
        ],
        "theorems": lean.get("theorems", []),
        "axioms_used": sorted({a for n in lean.get("axioms", {}) for a in lean["axioms"][n]}),
        "evaluations": stats.get("cases", 0),
        "distinct_nontrivial": stats.get("distinct_nontrivial", 0),
        "rule": "cases = op histories executed on two real specs::Worlds (SimpleMarker and UuidMarker, JSON and RON) and replayed through "
                "the Lean model and the C14/C15 monitors; hand-written corpus plus seeded random round-trip cases (random component/"
                "reference graphs, subset marked, plain and recursive serialiser) and random histories (create/mark/set/delete/maintain/"
                "alloc_maintain/serialize/deserialize/load with foreign data, a dump after every mutating op); a case is non-trivial when a "
                "round-tripped world has a reference cycle (self loops included) or a forward reference, or a history repeats a load or loads "
                "through a stale allocator mapping; distinct = distinct op scripts (hash), counted by the driver",
        "traces_validated_against_impl": stats.get("cases", 0),
        "transcript_lines": stats.get("lines", 0),
        "model_vs_impl_disagreements": {"in_projection": sum(len(d) for _, d in rel), "all_ops": all_diffs},
        "impl_vs_monitor_failures": sum(len(m) for m, _ in rel),
        "branch_hits": {k: stats.get(k, 0) for k in ("roundtrips", "rt_cycle_or_forward", "loads", "repeated_loads", "stale_loads",
                                                    "ser_panics", "rec_panic_stops", "uuid_cases", "ron_cases")},
        "runs": [r["label"] for r in results],
        "known_findings_reported": sorted(set(KNOWN_SEEN)),
        "samples": samples,
        "exhaustive": False,
    }
    assumptions = [
        "theorems are about the Lean model; the model is tied to /repo only on the explored histories (differential run above)",
        "marker ids and indices are unbounded naturals in the model (real: u64 counter, indices < 2^24, fewer than 2^31 reuses of one index)",
        "handles passed to operations were returned earlier by the same world (no forged handles); markers are removed only by deleting the entity (no direct remove on the marker storage)",
        "after a panic of serialize_recursive (a reachable entity is dead) the partially marked world is not compared with the model any further in that case (monitors keep running)",
    ]
    vlib.write_evidence(prop, tier, seed, coverage, assumptions, time.time() - t0, violations)
    return 1 if violations else 0


def replay(prop, path):
    ok, blog = vlib.build_harness([BIN])
    if not ok:
        print(blog); return 2
    lines, hrc, err = vlib.pipe_to_driver([vlib.hbin(BIN), "run", path])
    for l in lines:
        print(l)
    r = vlib.parse_driver(lines)
    mons, diffs = relevant(prop, r)
    if mons or diffs:
        print(f"VIOLATION property={prop} replay={path}")
        return 1
    return 0
