"""Shared machinery of /verif/bin/check: builds, audit, driver plumbing, shrinking, evidence."""
import fcntl, hashlib, json, os, re, shutil, subprocess, sys, time

VERIF = os.path.dirname(os.path.dirname(os.path.abspath(__file__)))
REPO = os.environ.get("SPECS_REPO", "/repo")
LEAN = os.path.join(VERIF, "lean")
HARNESS = os.environ.get("VERIF_HARNESS", os.path.join(VERIF, "harness"))
BUILD = os.path.join(VERIF, "build")
TARGET = os.environ.get("VERIF_TARGET", os.path.join(BUILD, "harness-target"))
TMP = os.path.join(BUILD, "tmp")
# (development only — bin/try_mutant.sh: runs against a mutated scratch copy write their replays and evidence elsewhere)
REPLAYS = os.environ.get("VERIF_REPLAYS", os.path.join(VERIF, "replays"))
EVIDENCE = os.environ.get("VERIF_EVIDENCE", os.path.join(VERIF, "evidence"))
DRIVER = os.path.join(LEAN, ".lake", "build", "bin", "specs_model")
ALLOWED_AXIOMS = {"propext", "Classical.choice", "Quot.sound"}
FORBIDDEN = re.compile(r"\bsorry\b|\badmit\b|^\s*axiom\s|native_decide|bv_decide|implemented_by|\bunsafe\s|maxHeartbeats\s+0")

for d in (BUILD, TMP, REPLAYS, EVIDENCE):
    os.makedirs(d, exist_ok=True)


class Lock:
    def __init__(self, name):
        self.path = os.path.join(BUILD, name + ".lock")
    def __enter__(self):
        self.f = open(self.path, "w")
        fcntl.flock(self.f, fcntl.LOCK_EX)
    def __exit__(self, *a):
        fcntl.flock(self.f, fcntl.LOCK_UN)
        self.f.close()


def env_offline():
    e = dict(os.environ)
    e.update({"CARGO_NET_OFFLINE": "true", "CARGO_TARGET_DIR": TARGET,
              "RUSTFLAGS": "--cfg specs_verif -Awarnings"})
    return e


def sh(cmd, cwd=None, env=None, timeout=None, stdin=None):
    p = subprocess.run(cmd, cwd=cwd, env=env, timeout=timeout, input=stdin,
                       stdout=subprocess.PIPE, stderr=subprocess.STDOUT, text=True)
    return p.returncode, p.stdout


# ---------------------------------------------------------------------------- Lean side

def strip_lean_comments(src):
    src = re.sub(r"/-.*?-/", "", src, flags=re.S)
    return re.sub(r"--.*", "", src)


def lean_sources():
    out = []
    for root in ("SpecsModel", "Driver"):
        for dp, _, fs in os.walk(os.path.join(LEAN, root)):
            for f in fs:
                if f.endswith(".lean"):
                    out.append(os.path.join(dp, f))
    return sorted(out)


def forbidden_hits():
    hits = []
    for p in lean_sources():
        src = strip_lean_comments(open(p).read())
        for n, line in enumerate(src.splitlines(), 1):
            if FORBIDDEN.search(line):
                hits.append(f"{os.path.relpath(p, LEAN)}: {line.strip()[:120]}")
    return hits


def prop_theorems(prop):
    """Names of the theorems stated in Props/<prop>.lean (fully qualified)."""
    path = os.path.join(LEAN, "SpecsModel", "Props", prop + ".lean")
    src = strip_lean_comments(open(path).read())
    ns = []
    names = []
    for line in src.splitlines():
        m = re.match(r"\s*namespace\s+(\S+)", line)
        if m:
            ns.append(m.group(1)); continue
        m = re.match(r"\s*end\s+(\S+)", line)
        if m and ns and ns[-1].split(".")[-1] == m.group(1).split(".")[-1]:
            ns.pop(); continue
        m = re.match(r"\s*(?:@\[[^\]]*\]\s*)?(?:private\s+|protected\s+)?theorem\s+([^\s:({\[]+)", line)
        if m:
            names.append(".".join(ns + [m.group(1)]))
    return names


def build_lean(prop, thorough=False):
    """Builds the property module + driver, audits axioms. Returns a dict."""
    t0 = time.time()
    res = {"ok": False, "theorems": [], "axioms": {}, "log": "", "forbidden": []}
    with Lock("lean"):
        rc, out = sh(["lake", "build", f"SpecsModel.Props.{prop}", "specs_model"], cwd=LEAN, timeout=3000)
        res["log"] = out[-4000:]
        if rc != 0:
            res["reason"] = "lake build failed"
            return res
        names = prop_theorems(prop)
        res["theorems"] = names
        audit = os.path.join(LEAN, "Audit", prop + ".lean")
        with open(audit, "w") as f:
            f.write(f"import SpecsModel.Props.{prop}\n")
            for n in names:
                f.write(f"#print axioms {n}\n")
        rc, out = sh(["lake", "env", "lean", audit], cwd=LEAN, timeout=1200)
        if rc != 0:
            res["reason"] = "axiom audit failed to run"; res["log"] = out[-4000:]
            return res
        if thorough:
            rc2, out2 = sh(["lake", "env", "leanchecker", f"SpecsModel.Props.{prop}"], cwd=LEAN, timeout=3000)
            res["leanchecker_rc"] = rc2
            if rc2 != 0:
                res["reason"] = "leanchecker rejected the module"; res["log"] = out2[-4000:]
                return res
    # parse "#print axioms" output
    cur = None
    text = out.replace("\n  ", " ")
    for m in re.finditer(r"'([^']+)' (depends on axioms: \[([^\]]*)\]|does not depend on any axioms)", text):
        name = m.group(1)
        axs = [a.strip() for a in (m.group(3) or "").split(",") if a.strip()]
        res["axioms"][name] = axs
    bad = {n: a for n, a in res["axioms"].items() if not set(a) <= ALLOWED_AXIOMS}
    missing = [n for n in names if n not in res["axioms"]]
    res["forbidden"] = forbidden_hits()
    res["bad_axioms"] = bad
    res["missing"] = missing
    res["ok"] = (not bad) and (not missing) and (not res["forbidden"]) and len(names) > 0
    if not res["ok"]:
        res["reason"] = "axiom audit: " + json.dumps({"bad": bad, "missing": missing, "forbidden": res["forbidden"]})
    res["wall_s"] = time.time() - t0
    return res


# ---------------------------------------------------------------------------- Rust side

def build_harness(bins, features=None):
    with Lock("cargo"):
        cmd = ["cargo", "build", "--offline"]
        for b in bins:
            cmd += ["--bin", b]
        if features:
            cmd += ["--features", ",".join(features)]
        rc, out = sh(cmd, cwd=HARNESS, env=env_offline(), timeout=3000)
    return rc == 0, out[-6000:]


def hbin(name):
    return os.path.join(TARGET, "debug", name)


# second build of the concurrency harness: specs WITHOUT its default `parallel` feature (harness/np)
TARGET_NP = TARGET + "-np"


def build_harness_np():
    with Lock("cargo"):
        e = env_offline()
        e["CARGO_TARGET_DIR"] = TARGET_NP
        rc, out = sh(["cargo", "build", "--offline"], cwd=os.path.join(HARNESS, "np"), env=e, timeout=3000)
    return rc == 0, out[-6000:]


def hbin_np(name):
    return os.path.join(TARGET_NP, "debug", name)


def pipe_to_driver(harness_cmd, timeout=3000, keep=None, env=None):
    """Runs `harness_cmd | specs_model`; returns (driver lines, harness rc, stderr tail).
    `keep`: optional path to which the harness transcript is also written."""
    hp = subprocess.Popen(harness_cmd, stdout=subprocess.PIPE, stderr=subprocess.PIPE, env=env)
    if keep:
        tee = subprocess.Popen(["tee", keep], stdin=hp.stdout, stdout=subprocess.PIPE)
        src = tee.stdout
    else:
        src = hp.stdout
    dp = subprocess.Popen([DRIVER], stdin=src, stdout=subprocess.PIPE, text=True)
    hp.stdout.close()
    try:
        out, _ = dp.communicate(timeout=timeout)
    except subprocess.TimeoutExpired:
        hp.kill(); dp.kill()
        return ["HANG harness or driver exceeded time limit"], -9, ""
    err = hp.stderr.read().decode(errors="replace")[-2000:]
    hrc = hp.wait()
    return out.splitlines(), hrc, err


def parse_driver(lines):
    r = {"diff": [], "mon": [], "bad": [], "stats": {}, "hang": []}
    for l in lines:
        if l.startswith("DIFF "):
            r["diff"].append(l)
        elif l.startswith("MON "):
            r["mon"].append(l)
        elif l.startswith("BAD "):
            r["bad"].append(l)
        elif l.startswith("HANG "):
            r["hang"].append(l)
        elif l.startswith("STATS "):
            for kv in l.split()[1:]:
                k, _, v = kv.partition("=")
                try:
                    r["stats"][k] = r["stats"].get(k, 0) + int(v)
                except ValueError:
                    r["stats"][k] = v
    return r


def field(line, key):
    m = re.search(r"\b" + key + r"=(\[[^\]]*\]|\S+)", line)
    return m.group(1) if m else None


def extract_case(transcript_path, case_id):
    """Op lines (results stripped) of one case from a saved transcript."""
    ops, on = [], False
    with open(transcript_path) as f:
        for line in f:
            line = line.rstrip("\n")
            if line.startswith("case "):
                if on:
                    break
                on = (line.split()[1] == case_id)
            elif on and line and not line.startswith("#"):
                ops.append(line.split(" => ")[0])
    return ops


def last_case(transcript_path):
    """(case id, op lines with results stripped) of the LAST case of a saved transcript — the case during which a
    harness that prints each op before executing it died."""
    cid, ops, nxt = None, [], None
    with open(transcript_path, errors="replace") as f:
        for line in f:
            line = line.rstrip("\n")
            if line.startswith("case "):
                cid, ops, nxt = line.split()[1], [], None
            elif line.startswith("# next: "):
                nxt = line[len("# next: "):]          # announced, result not (yet) seen
            elif cid is not None and line and not line.startswith("#") and not line.startswith("in "):
                ops.append(line.split(" => ")[0])
                if nxt is not None and ops[-1] == nxt:
                    nxt = None
    if cid is not None and nxt is not None:
        ops.append(nxt)
    return cid, ops


def ddmin(items, test):
    """Classic delta debugging: smallest sublist (order kept) for which test() stays true."""
    n = 2
    while len(items) >= 2:
        chunk = max(1, len(items) // n)
        subsets = [items[i:i + chunk] for i in range(0, len(items), chunk)]
        reduced = False
        for i in range(len(subsets)):
            comp = [x for j, s in enumerate(subsets) if j != i for x in s]
            if comp and test(comp):
                items, n, reduced = comp, max(n - 1, 2), True
                break
        if not reduced:
            if n >= len(items):
                break
            n = min(len(items), n * 2)
    return items


# ---------------------------------------------------------------------------- findings / output

def known_findings():
    out = []
    p = os.path.join(VERIF, "known_findings.txt")
    if os.path.exists(p):
        for line in open(p):
            line = line.strip()
            m = re.match(r"finding:\s+property=(\S+)\s+match=(\S+)\s+(.*)", line)
            if m:
                out.append({"property": m.group(1), "match": m.group(2), "text": m.group(3)})
    return out


def canonical(ops):
    return ";".join(o.replace(" ", "_") for o in ops)


def write_replay(prop, tag, header, ops=None, domain=None):
    path = os.path.join(REPLAYS, f"{prop}-{tag}.ops" if ops is not None else f"{prop}-{tag}.txt")
    with open(path, "w") as f:
        for h in header:
            for hl in str(h).split("\n"):
                f.write("# " + (hl if len(hl) <= 1500 else hl[:1500] + f" … [{len(hl) - 1500} more characters]") + "\n")
        if ops is not None:
            if domain:
                f.write(f"# domain {domain}\n")
            f.write("case replay\n")
            for o in ops:
                f.write(o + "\n")
    return path


def write_evidence(prop, tier, seed, coverage, assumptions, wall_s, violations, extra=None):
    ev = {"property_id": prop, "tier": tier, "seed": seed, "level": "proof",
          "coverage": coverage, "assumptions": assumptions, "wall_s": round(wall_s, 2),
          "violations": violations}
    if extra:
        ev.update(extra)
    path = os.path.join(EVIDENCE, prop + ".json")
    tmp = path + ".tmp"
    with open(tmp, "w") as f:
        json.dump(ev, f, indent=1)
    os.replace(tmp, path)
    return path


TRUSTED_BASE = [
    "Lean 4.33.0 kernel (thorough tier: leanchecker re-check of the property module)",
    "axioms allowed: propext, Classical.choice, Quot.sound (audited with #print axioms on every theorem of the property)",
    "hand-written Lean model of the code (lean/SpecsModel/Model/*.lean), tied to /repo's working tree only by the differential run of this check",
    "the Rust harness (harness/), the line protocol, bin/check; the Lean compiler for the driver executable only",
]
