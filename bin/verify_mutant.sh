#!/bin/sh
# usage: verify_mutant.sh <worktree> <mutant-dir>   — confirms: applies, full suite passes with it, demo fails with / passes without.
wt="$1"; m="$2"; FEAT="${3:-}"
if [ -n "$FEAT" ]; then FF="--features"; else FF=""; fi
export CARGO_TARGET_DIR=${MUT_TARGET:-/tmp/mut_target} CARGO_NET_OFFLINE=true
cd "$wt" || exit 2
git checkout -q -- . ; rm -f tests/verif_demo.rs
git apply "$m/patch.diff" || { echo "RESULT apply=FAIL"; exit 1; }
if [ -n "$FEAT" ]; then featfails=$(cargo test --offline --features "$FEAT" --lib --tests 2>&1 | grep -cE "^test .* FAILED|^error"); else featfails=n/a; fi
fails=$(cargo test --workspace --no-fail-fast --offline --lib --tests 2>&1 | grep -cE "^test .* FAILED|^error")
cp "$m/demo.rs" tests/verif_demo.rs
demo_with=$(cargo test --offline --test verif_demo $FF "$FEAT" 2>&1 | grep -E "^test result" | tail -1)
git checkout -q -- src specs-derive 2>/dev/null; git checkout -q -- Cargo.lock 2>/dev/null
demo_without=$(cargo test --offline --test verif_demo $FF "$FEAT" 2>&1 | grep -E "^test result" | tail -1)
rm -f tests/verif_demo.rs
git checkout -q -- .
echo "RESULT mutant=$m"
echo "  demo WITH patch   : $demo_with"
echo "  demo WITHOUT patch: $demo_without"
echo "  existing suite with patch: $fails failing tests / build errors (with features \"$FEAT\": $featfails)"
