#!/usr/bin/env python3
"""Development tool: re-runs every stored seeded change (seeded/<id>/patch.diff) against the current checks through
bin/try_mutant.sh and prints, per change, which properties' quick checks report a VIOLATION.
usage: bin/regress_seeded.py [id-prefix ...]   (output also appended to build/regress.txt)"""
import json, os, re, subprocess, sys, time
V = "/verif"
ids = sorted(d for d in os.listdir(f"{V}/seeded") if os.path.isdir(f"{V}/seeded/{d}"))
if len(sys.argv) > 1:
    ids = [i for i in ids if any(i.startswith(p) for p in sys.argv[1:])]
out = open(f"{V}/build/regress.txt", "a")
for i in ids:
    meta = json.load(open(f"{V}/seeded/{i}/meta.json"))
    own = meta["property"]
    others = [p for p in dict.fromkeys(re.findall(r"C\d\d", meta.get("detected_by", ""))) if p != own]
    t0 = time.time()
    hit = []
    for p in [own] + others:
        r = subprocess.run([f"{V}/bin/try_mutant.sh", f"{V}/seeded/{i}/patch.diff", p], capture_output=True, text=True, cwd=V)
        if "PATCH DOES NOT APPLY" in r.stdout:
            hit = ["PATCH-DOES-NOT-APPLY"]; break
        if "VIOLATION" in r.stdout:
            concrete = any("VIOLATION" in l and "no-failing-input-found" not in l for l in r.stdout.splitlines())
            hit.append(p + ("" if concrete else "(nfif)"))
            if p == own:
                break
    line = f"{i} expected_detected={meta.get('detected')} now={' '.join(hit) if hit else 'MISSED'} {time.time() - t0:.0f}s"
    print(line, flush=True)
    out.write(line + "\n"); out.flush()
