"""Join domain (h_join / h_join_h3): statically typed join shapes on random worlds; serves C06 and C07.

Transcript = per case: setup lines (ents / store / bitset), `caps`, then `join <sid> <mode> … : members => result`.
Modes seq, lend, lendfe, lendget belong to C06; par (real rayon pools), tree (hook H3: explicit split trees)
and the capability table (`caps`) belong to C07.  The H3-dependent part needs `JoinParIter::verif_drive`
(hooks/H3_par_join_drive.patch) in the tree being checked: the binary `h_join_h3` only builds with it; without
it the check falls back to `h_join` (no `tree` ops) and says so in the evidence.
"""
import glob, os, re, resource, subprocess, sys, time
from concurrent.futures import ThreadPoolExecutor
import vlib

BIN = "h_join"
BIN_H3 = "h_join_h3"

PROPS = {
    "C06": {"mon": ["C06"], "modes": ["seq", "lend", "lendfe", "lendget"], "ops": [],
            "what": "a join (sequential / lending) visits exactly the indices present in every required member and absent "
                    "from every negated one, once each, ascending; every item component equals the direct lookup; "
                    "writes through an item land on that index only; lend.get(e) is Some iff e is alive and in the mask"},
    "C07": {"mon": ["C07"], "modes": ["par", "tree"], "ops": ["caps"],
            "what": "a parallel join delivers a permutation of the sequential join's items (none missing, none twice) under "
                    "every split tree and pool size, the post-state is the sequential one, and only DistinctStorage kinds "
                    "admit &mut parallel members"},
}

STACK = 1 << 30
RUN_TIMEOUT = {"quick": 100, "thorough": 420}   # per harness|driver pipeline, seconds


def _raise_stack():
    try:
        soft, hard = resource.getrlimit(resource.RLIMIT_STACK)
        want = STACK if hard == resource.RLIM_INFINITY else min(STACK, hard)
        resource.setrlimit(resource.RLIMIT_STACK, (want, hard))
    except Exception:
        pass


def pipe(harness_cmd, timeout=3000, keep=None):
    """`harness_cmd | specs_model` (like vlib.pipe_to_driver, with a larger stack for the driver: the model's
    join loop is not tail recursive and a join may deliver 3*10^5 items)."""
    hp = subprocess.Popen(harness_cmd, stdout=subprocess.PIPE, stderr=subprocess.PIPE)
    if keep:
        tee = subprocess.Popen(["tee", keep], stdin=hp.stdout, stdout=subprocess.PIPE)
        src = tee.stdout
    else:
        src = hp.stdout
    dp = subprocess.Popen([vlib.DRIVER], stdin=src, stdout=subprocess.PIPE, text=True, preexec_fn=_raise_stack)
    hp.stdout.close()
    try:
        out, _ = dp.communicate(timeout=timeout)
    except subprocess.TimeoutExpired:
        hp.kill(); dp.kill()
        return ["HANG harness or driver exceeded time limit"], -9, ""
    err = hp.stderr.read().decode(errors="replace")[-2000:]
    hrc = hp.wait()
    return out.splitlines(), hrc, err


def hook_present():
    p = os.path.join(vlib.REPO, "src", "join", "par_join.rs")
    try:
        return "verif_drive" in open(p).read()
    except OSError:
        return False


WORLD_PASS = {"stats": {}}


def plan(prop, tier, seed, h3):
    runs = []
    for f in sorted(glob.glob(os.path.join(vlib.VERIF, "corpus", "join", "*.ops"))):
        runs.append(("corpus:" + os.path.basename(f), ["run", f]))
    s = seed * 1000
    if tier == "quick":
        spec = [("tiny", 4, 60), ("small", 4, 40), ("raw", 2, 40), ("mid", 3, 10), ("mix", 2, 30), ("big", 3, 1)]
        trees = 2 if prop == "C07" else 1
    else:
        spec = [("tiny", 12, 250), ("small", 12, 160), ("raw", 8, 120), ("mid", 12, 30), ("mix", 8, 120), ("big", 14, 2)]
        trees = 12 if prop == "C07" else 4
    n = 0
    for cls, shards, cases in spec:
        for i in range(shards):
            runs.append((f"gen:{cls}/{i}", ["gen", str(s + n), str(cases), cls])); n += 1
    if h3:
        for i in range(trees):
            runs.append((f"trees/{i}", ["trees", str(s + 500 + i), "1"]))
    # long runs first so that the pool drains evenly
    runs.sort(key=lambda r: (0 if r[0].startswith(("gen:big", "trees", "gen:mid")) else 1))
    return runs


def run_one(args):
    binp, label, tail, tmo = args
    t0 = time.time()
    lines, hrc, err = pipe([binp] + tail, timeout=tmo)
    r = vlib.parse_driver(lines)
    r["label"], r["tail"], r["hrc"], r["err"], r["bin"], r["wall"] = label, tail, hrc, err, binp, time.time() - t0
    return r


def op_mode(line):
    op = (vlib.field(line, "op") or "[]").strip("[]").split()
    if not op:
        return None
    if op[0] == "caps":
        return "caps"
    if op[0] == "join" and len(op) > 2:
        return op[2]
    return None


def relevant(prop, r):
    spec = PROPS[prop]
    mons = [m for m in r["mon"] if m.split()[1] in spec["mon"]]
    diffs = [d for d in r["diff"] if (op_mode(d) in spec["modes"] or op_mode(d) in spec["ops"])]
    return mons, diffs


# ---------------------------------------------------------------------------- scripts

def case_lines(transcript_path, case_id):
    """Setup + op lines (results stripped) of one case."""
    return vlib.extract_case(transcript_path, case_id)


def split_script(lines):
    """-> (items, rebuild). items = setup entries and op lines, each a tuple; rebuild(items) -> script lines."""
    items = []
    for ln in lines:
        t = ln.split()
        if not t:
            continue
        if t[0] == "ents":
            items += [("ents", "", x) for x in t[1:]]
        elif t[0] == "raised":
            items += [("raised", "", x) for x in t[1:]]
        elif t[0] == "killed":
            items += [("killed", "", x) for x in t[1:]]
        elif t[0] == "store":
            items.append(("storehdr", t[1] + " " + t[2], ""))
            items += [("store", t[1] + " " + t[2], x) for x in t[3:]]
        elif t[0] == "bitset":
            items += [("bitset", t[1], x) for x in t[2:]]
        else:
            items.append(("op", "", ln))
    return items


def rebuild(items):
    ents, raised, killed, stores, bits, ops = [], [], [], {}, {}, []
    for kind, key, val in items:
        if kind == "ents":
            ents.append(val)
        elif kind == "raised":
            raised.append(val)
        elif kind == "killed":
            killed.append(val)
        elif kind == "storehdr":
            stores.setdefault(key, [])
        elif kind == "store":
            stores.setdefault(key, []).append(val)
        elif kind == "bitset":
            bits.setdefault(key, []).append(val)
        else:
            ops.append(val)
    out = []
    if ents:
        out.append("ents " + " ".join(ents))
    if raised:
        # entities created atomically and not yet merged; the harness drops entries that are not in `ents`
        out.append("raised " + " ".join(raised))
    if killed:
        # entities with a pending deletion (Entities::delete called, no maintain yet); subset of `ents`
        out.append("killed " + " ".join(killed))
    for key in sorted(stores, key=lambda k: int(k.split()[0])):
        out.append(("store " + key + " " + " ".join(stores[key])).rstrip())
    for key in sorted(bits, key=int):
        out.append("bitset " + key + " " + " ".join(bits[key]))
    return out + ops


def run_script(binp, lines, timeout=90):
    path = os.path.join(vlib.TMP, f"jscript-{os.getpid()}-{time.time_ns()}.ops")
    with open(path, "w") as f:
        f.write("case s\n" + "\n".join(lines) + "\n")
    out, hrc, err = pipe([binp, "run", path], timeout=timeout)
    os.unlink(path)
    r = vlib.parse_driver(out)
    r["hrc"] = hrc
    return r


def shrink(binp, lines, still, budget_s=75):
    """ddmin over op lines first (keep the last = failing one), then over setup entries, within a time budget."""
    t_end = time.time() + budget_s

    def guarded(test):
        def g(cand):
            if time.time() > t_end:
                return False
            return test(cand)
        return g

    items = split_script(lines)
    setup = [x for x in items if x[0] != "op"]
    ops = [x for x in items if x[0] == "op"]
    caps = [x for x in ops if x[2].startswith("caps")]
    ops_nc = [x for x in ops if not x[2].startswith("caps")]
    # 1. the failing op alone?
    if ops_nc and still(rebuild(setup + ops_nc[-1:])):
        ops = ops_nc[-1:]
    elif caps and not ops_nc and still(rebuild(setup + caps[:1])):
        ops = caps[:1]
    else:
        ops = vlib.ddmin(ops, guarded(lambda c: still(rebuild(setup + c))))
    # 2. setup entries
    if still(rebuild(ops)):
        setup = []
    else:
        setup = vlib.ddmin(setup, guarded(lambda c: still(rebuild(c + ops))))
    return rebuild(setup + ops)


def report_failures(prop, tier, seed, results):
    spec = PROPS[prop]
    known = [k for k in vlib.known_findings() if k["property"] == prop]
    violations = 0
    seen = set()
    seen_pre = set()
    handled = 0

    def rank(r):
        mons, diffs = relevant(prop, r)
        if r["hang"]:
            return 3
        return 0 if mons else (1 if diffs else 2)

    # cheap, concrete evidence first: monitor failures, then correspondence breaks, then crashes, then hangs
    for r in sorted(results, key=lambda r: (rank(r), r["wall"])):
        mons, diffs = relevant(prop, r)
        crashed = r["hrc"] != 0 or r["hang"] or r["bad"]
        if not mons and not diffs and not crashed:
            continue
        binp = r["bin"]
        if r["hang"]:
            if violations:
                continue    # already explained by a concrete replay above
            path = vlib.write_replay(prop, f"hang-{seed}",
                [f"property {prop}: harness run `{os.path.basename(binp)} {' '.join(r['tail'])}` | driver exceeded its time limit "
                 f"({r['wall']:.0f}s): the run the property depends on did not complete (a join that no longer terminates, or an output explosion)"])
            print(f"VIOLATION property={prop} replay={path} no-failing-input-found")
            violations += 1
            continue
        if mons or diffs:
            first = mons[0] if mons else diffs[0]
            # cheap pre-deduplication (before the expensive re-run + shrink): same verdict on the same op text
            pre = ("mon:" if mons else "diff:") + (vlib.field(first, "op") or "") + "|" + " ".join(first.split()[4:7])
            if pre in seen_pre or handled >= 6:
                continue
            seen_pre.add(pre)
            handled += 1
            cid = vlib.field(first, "case")
            ln = int(vlib.field(first, "line"))
            keep = os.path.join(vlib.TMP, f"jtr-{os.getpid()}-{time.time_ns()}.txt")
            pipe([binp] + r["tail"], keep=keep, timeout=RUN_TIMEOUT[tier])
            lines = case_lines(keep, cid)[:ln]
            os.unlink(keep)
            if mons:
                tag = first.split()[1]
                def still(ls, tag=tag):
                    rr = run_script(binp, ls)
                    return any(x.split()[1] == tag for x in rr["mon"])
            else:
                def still(ls):
                    rr = run_script(binp, ls)
                    return bool(relevant(prop, rr)[1])
            if still(lines):
                lines = shrink(binp, lines, still)
            canon = ("mon:" if mons else "diff:") + vlib.canonical([l for l in lines if l.startswith(("join", "caps"))])
            if canon in seen:
                continue
            seen.add(canon)
            kf = [k for k in known if k["match"] == vlib.canonical(lines)]
            if kf:
                print(f"KNOWN-FINDING: property={prop} {kf[0]['text']}")
                continue
            # the verdict line of the minimised script
            rr = run_script(binp, lines)
            verdict = (relevant(prop, rr)[0] or relevant(prop, rr)[1] or [first])[0]
            if mons:
                path = vlib.write_replay(prop, f"{seed}-{len(seen)}",
                    [f"property {prop}: {spec['what']}",
                     f"monitor verdict on the implementation's transcript: {verdict[:600]}",
                     f"found by: {os.path.basename(binp)} {' '.join(r['tail'])} (case {cid}); minimised by ddmin over setup entries and join lines",
                     f"replay: bin/check {prop} --replay <this file>"], lines, "join")
                print(f"VIOLATION property={prop} replay={path}")
            else:
                path = vlib.write_replay(prop, f"corr-{seed}-{len(seen)}",
                    [f"property {prop}: {spec['what']}",
                     "the implementation left the Lean model (correspondence SpecsModel.Join.* vs h_join) on this script;",
                     f"the theorems of SpecsModel.Props.{prop} therefore no longer speak about this code.",
                     f"first divergence: {verdict[:600]}",
                     "no transcript rejected by the property monitor was found (the monitor recomputes the spec from the setup "
                     "lines independently of the model, and accepted every op of this run)"], lines, "join")
                print(f"VIOLATION property={prop} replay={path} no-failing-input-found")
            violations += 1
        else:
            # harness crash / hang / unparsable transcript: the run the property depends on did not complete
            keep = os.path.join(vlib.TMP, f"jcr-{os.getpid()}-{time.time_ns()}.txt")
            pipe([binp] + r["tail"], keep=keep, timeout=RUN_TIMEOUT[tier])
            last, cur = [], []
            try:
                for line in open(keep, errors="replace"):
                    line = line.rstrip("\n")
                    if line.startswith("case "):
                        cur = []
                    elif line and not line.startswith(("#", "domain")):
                        cur.append(line.split(" => ")[0])
                last = cur
                os.unlink(keep)
            except OSError:
                pass
            hdr = [f"property {prop}: harness run {r['label']} did not complete: rc={r['hrc']} {r['hang']} {[b[:200] for b in r['bad'][:2]]}",
                   r["err"][-1500:], "last case of the transcript (the harness died in or after its last line):"]
            if last and r["hrc"] != 0:
                path = vlib.write_replay(prop, f"crash-{seed}", hdr, last, "join")
                print(f"VIOLATION property={prop} replay={path}")
            else:
                path = vlib.write_replay(prop, f"crash-{seed}", hdr)
                print(f"VIOLATION property={prop} replay={path} no-failing-input-found")
            violations += 1
        if violations >= 3:
            break
    return violations


def check(prop, tier, seed, t0):
    spec = PROPS[prop]
    lean = vlib.build_lean(prop, thorough=(tier == "thorough"))
    violations = 0
    if not lean["ok"]:
        path = vlib.write_replay(prop, "proof", [f"theorems of SpecsModel.Props.{prop} do not check: {lean.get('reason')}", lean["log"]])
        print(f"VIOLATION property={prop} replay={path} no-failing-input-found")
        violations += 1
    ok, blog = vlib.build_harness([BIN])
    results, h3, h3_note = [], False, ""
    if not ok:
        path = vlib.write_replay(prop, "build", ["the harness (h_join) does not build against /repo's working tree, so the model cannot be tied to this code", blog])
        print(f"VIOLATION property={prop} replay={path} no-failing-input-found")
        violations += 1
    else:
        ok3, blog3 = vlib.build_harness([BIN_H3])
        h3 = ok3
        if not ok3:
            h3_note = ("hook H3 (JoinParIter::verif_drive) is absent from the tree: explicit split-tree enumeration skipped; "
                       if not hook_present() else "h_join_h3 did not build although the hook is present: split-tree enumeration skipped; ") + \
                      "parallel joins were exercised on real rayon pools only. " + blog3[-400:].replace("\n", " ")
        binp = vlib.hbin(BIN_H3 if h3 else BIN)
        jobs = [(binp, label, tail, RUN_TIMEOUT.get(tier, 420)) for label, tail in plan(prop, tier, seed, h3)]
        with ThreadPoolExecutor(max_workers=8) as ex:
            results = list(ex.map(run_one, jobs))
        # a pipeline timeout may be an artefact of a heavily loaded machine: run that invocation once more, alone and
        # with four times the limit; only a timeout that repeats is reported
        for i, r in enumerate(results):
            if r["hang"]:
                rr = run_one((jobs[i][0], jobs[i][1], jobs[i][2], 4 * jobs[i][3]))
                rr["retried_after_timeout"] = True
                results[i] = rr
        violations += report_failures(prop, tier, seed, results)
        if prop == "C06":
            # look-ups by entity through the lending join of ONE storage (`lget`, `lgetmut`, `ldrain2`, `lentry2` of the world
            # domain): the driver's C06 monitor of that domain
            import dom_world
            v, WORLD_PASS["stats"] = dom_world.mon_pass("C06", tier, seed)
            violations += v
    stats = {}
    for r in results:
        for k, v in r["stats"].items():
            if isinstance(v, int):
                stats[k] = (max(stats.get(k, 0), v) if k == "max_index" else stats.get(k, 0) + v)
    samples = []
    if ok:
        s = subprocess.run([vlib.hbin(BIN_H3 if h3 else BIN), "gen", str(seed), "1", "tiny"], capture_output=True, text=True).stdout.splitlines()
        samples = [l[:300] for l in s if not l.startswith("domain")][:30]
    n_thm = len(lean.get("theorems", []))
    n_ok = len([n for n in lean.get("theorems", []) if n in lean.get("axioms", {}) and set(lean["axioms"][n]) <= vlib.ALLOWED_AXIOMS]) if lean["ok"] else 0
    rel = [relevant(prop, r) for r in results]
    mode_hist = {k[5:]: v for k, v in stats.items() if k.startswith("mode_")}
    arity_hist = {k[6:]: v for k, v in stats.items() if k.startswith("arity_")}
    own_ops = sum(v for k, v in mode_hist.items() if k in spec["modes"])
    coverage = {
        "obligations": n_thm, "discharged": n_ok,
        "checker_cmd": f"cd lean && lake build SpecsModel.Props.{prop} && lake env lean Audit/{prop}.lean" + (f" && lake env leanchecker SpecsModel.Props.{prop}" if tier == "thorough" else ""),
        "trusted_base": vlib.TRUSTED_BASE + [
            "hibitset is modelled at three levels (A: sets; B: four layers of position lists; C: four layers of 64-bit words with the Rust word operations, incl. the real average_ones) related by proved refinements (level_c_* theorems); what remains trusted is the reading of Rust's usize/u32/u64 operations as Nat operations below 2^64, Vec growth of BitSet layers (a word beyond len reads as 0) and the bool results of add/remove; exercised on masks straddling 63/64, 4095/4096, 262143/262144 and on raw bit sets up to 2^24-1",
            "rayon is a parameter of the theorems (every split tree, every schedule); the real scheduler is only sampled (pools of 1,2,3,8,16,64,128 threads)"],
        "theorems": lean.get("theorems", []),
        "axioms_used": sorted({a for n in lean.get("axioms", {}) for a in lean["axioms"][n]}),
        "evaluations": own_ops,
        "cases": stats.get("cases", 0),
        "distinct_nontrivial": stats.get("distinct_nontrivial", 0),
        "rule": "evaluations = join ops of this property's modes executed on the real crate and replayed through the Lean model "
                "(Level-A join + Level-B BitIter/BitProducer) and the spec monitor; cases = random worlds (16 stores of 8 kinds, "
                "4 raw bit sets, entities with generations; in half of the worlds 1..30% of the entities are `raised`: created atomically, "
                "not yet merged by maintain; in a third of the worlds 1..20% have a pending deletion: Entities::delete called, "
                "no maintain yet) drawn per index class; a case is non-trivial when some join of arity >= 2 "
                "delivered a non-empty result; distinct = distinct case scripts (hash), counted by the driver",
        "traces_validated_against_impl": stats.get("cases", 0),
        "transcript_lines": stats.get("lines", 0),
        "items_delivered": stats.get("items", 0),
        "model_vs_impl_disagreements": {"in_projection": sum(len(d) for _, d in rel), "all_ops": sum(len(r["diff"]) for r in results)},
        "impl_vs_monitor_failures": sum(len(m) for m, _ in rel),
        "mode_histogram": mode_hist, "arity_histogram": arity_hist,
        "boundary_hits": {k: stats.get(k, 0) for k in ("cross64", "cross4096", "cross262144", "adj64", "adj4096", "adj262144")},
        "max_index": stats.get("max_index", 0),
        "raised_entities": {k: stats.get(k, 0) for k in ("raised", "raised_cases", "raised_gen2", "raised_visits", "raised_ops")},
        "pending_deletions": {k: stats.get(k, 0) for k in ("killed", "killed_cases", "killed_visits", "killed_ops")},
        "h3_hook": "present" if h3 else "absent",
        "h3_note": h3_note,
        "runs": [f"{r['label']} ({r['wall']:.1f}s)" for r in results],
        "world_domain_pass": WORLD_PASS["stats"],
        "samples": samples,
        "exhaustive": False,
    }
    assumptions = [
        "theorems are about the Lean model; the model is tied to /repo only on the explored joins (differential run above)",
        "indices < 2^24 (hibitset's index space); 64-bit target (BITS = 6)",
        "exclusive borrows of one join tuple are pairwise distinct stores (Rust's borrow checker), a hypothesis of the write-back theorems",
        "hibitset words are abstracted as ascending position lists; rayon is an arbitrary split tree / schedule",
    ]
    if h3_note:
        assumptions.append(h3_note)
    vlib.write_evidence(prop, tier, seed, coverage, assumptions, time.time() - t0, violations)
    return 1 if violations else 0


def replay(prop, path):
    if "# domain world" in open(path).read():
        import dom_world
        return dom_world.replay(prop, path)
    ok, blog = vlib.build_harness([BIN])
    if not ok:
        print(blog); return 2
    ok3, _ = vlib.build_harness([BIN_H3])
    binp = vlib.hbin(BIN_H3 if ok3 else BIN)
    lines, hrc, err = pipe([binp, "run", path])
    for l in lines:
        print(l[:2000])
    r = vlib.parse_driver(lines)
    mons, diffs = relevant(prop, r)
    if mons or diffs or hrc != 0:
        print(f"VIOLATION property={prop} replay={path}")
        return 1
    return 0
