#!/bin/sh
# usage: bin/try_mutant.sh <patch.diff> <prop> [<prop> ...]
# Runs the quick checks against a mutated copy of the repository WITHOUT touching /repo (other
# work may be building against it): scratch worktree + private harness copy + private target dir;
# replays and evidence of these runs go to build/mutrun-replays and build/mutrun-evidence.
# (Equivalent to `git -C /repo apply <patch>; bin/check …; git -C /repo checkout -- .`, which is
# what to use when nothing else is building against /repo.)
set -u
patch="$1"; shift
TAG="${MUTRUN_TAG:-}"   # a second instance may run beside the first one with its own scratch copies
WT=/tmp/mutrun_repo$TAG
git -C /repo worktree remove --force $WT 2>/dev/null
git -C /repo worktree add -q $WT HEAD || { sleep 3; git -C /repo worktree prune; git -C /repo worktree add -q $WT HEAD; } || { echo "WORKTREE-ADD-FAILED"; exit 2; }
( cd $WT && git apply "$patch" ) || { echo "PATCH DOES NOT APPLY"; git -C /repo worktree remove --force $WT; exit 2; }
H=/verif/build/mutrun_harness$TAG
rm -rf $H; mkdir -p $H; cp -r /verif/harness/src /verif/harness/Cargo.toml /verif/harness/Cargo.lock /verif/harness/.cargo $H/
cp -r /verif/harness/np $H/
sed -i "s#path = \"/repo\"#path = \"$WT\"#" $H/Cargo.toml $H/np/Cargo.toml
cd /verif
for p in "$@"; do
  echo "== $p"
  SPECS_REPO=$WT VERIF_HARNESS=$H VERIF_TARGET=/verif/build/mutrun-target$TAG VERIF_REPLAYS=/verif/build/mutrun-replays$TAG VERIF_EVIDENCE=/verif/build/mutrun-evidence$TAG timeout ${MUTRUN_TIMEOUT:-1200} bin/check "$p" --tier quick 2>&1 | grep -E "VIOLATION|KNOWN|error|Traceback" | head -5
done
git -C /repo worktree remove --force $WT
