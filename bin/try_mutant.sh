#!/bin/sh
# usage: bin/try_mutant.sh <patch.diff> <prop> [<prop> ...]   — applies the patch to /repo, runs quick checks, reverts.
set -u
patch="$1"; shift
cd /repo && git apply "$patch" || { echo "PATCH DOES NOT APPLY"; exit 2; }
cd /verif
for p in "$@"; do
  echo "== $p"
  timeout 900 bin/check "$p" --tier quick 2>&1 | grep -E "VIOLATION|KNOWN|error|Traceback" | head -5
  echo "rc=$?"
done
git -C /repo checkout -- . && git -C /repo status --short | head -3
