"""Conc domain (h_conc): a shared-access phase of a real specs::World — real threads serialised at
the H1 yield points along a given schedule — replayed on the Lean small-step model (property C10)."""
import glob, os, random, subprocess, sys, time
from concurrent.futures import ThreadPoolExecutor
import vlib

BIN = "h_conc"
PROP_WHAT = ("concurrent create / delete / lazy queuing through shared access: handles pairwise distinct and alive for "
             "their creator, deletion of a live handle succeeds, nothing lost; after maintain alive = initial + created - "
             "requested and every lazy action ran exactly once")

# Development override (unused in normal operation): run against a private workspace that holds
# copies of lean/ and harness/ (harness pointed at a tree that has hook H1 applied).
_WS = os.environ.get("C10_WS")
if _WS:
    vlib.LEAN = os.path.join(_WS, "lean")
    vlib.HARNESS = os.path.join(_WS, "harness")
    vlib.TARGET = os.path.join(_WS, "target")
    vlib.DRIVER = os.path.join(_WS, "lean", ".lake", "build", "bin", os.environ.get("C10_DRIVER", "conc_model"))
    vlib.REPLAYS = os.path.join(_WS, "replays")
    vlib.EVIDENCE = os.path.join(_WS, "evidence")
    for d in (vlib.REPLAYS, vlib.EVIDENCE):
        os.makedirs(d, exist_ok=True)

# Which monitor tag this module is deciding: C10 (its own property) or, for the pass that bin/check C17 adds,
# C17 — then only `MON C17` lines count and correspondence breaks are left to C10's check.
TAG = ["C10"]
WHAT = {"C10": PROP_WHAT,
        "C17": "indices of dead entities are recycled: a never-used index is taken only when every lower index is occupied "
               "by an entity that is alive or awaiting maintain (here: creations racing through shared access)"}


def pd(lines):
    r = vlib.parse_driver(lines)
    r["mon"] = [m for m in r["mon"] if m.startswith("MON " + TAG[0] + " ")]
    if TAG[0] != "C10":
        r["diff"] = []
    return r


# the binary the helper functions below run: the all-features build, or the build against specs without `parallel`
ACTIVE = [None]


def hb():
    return ACTIVE[0] or vlib.hbin(BIN)


def bin_of(label):
    return vlib.hbin_np("h_conc_np") if label.startswith("np/") else vlib.hbin(BIN)


NHIST = 4
BIG_2x2 = 7       # [create create || create create]: ~1.8e5 schedules per history
BIG_3x1 = 2       # [create || create || create]:     ~7.6e5 schedules per history


def plan(tier, seed):
    """Harness invocations for a tier: (label, argv-tail)."""
    runs = []
    for f in sorted(glob.glob(os.path.join(vlib.VERIF, "corpus", "conc", "*.case"))):
        runs.append(("corpus:" + os.path.basename(f), ["run", f]))
    # every schedule of 2 threads x 1 call and 2 threads x 2 calls (all but the big program set)
    for h in range(NHIST):
        runs.append((f"exh2x1/h{h}", ["exh", "2", "1", str(h)]))
        for ps in range(BIG_2x2):
            runs.append((f"exh2x2/h{h}/p{ps}", ["exh", "2", "2", str(h), str(ps)]))
    # the same program sets on the build without `parallel` (threads share `&EntitiesRes` only; no lazy calls)
    for h in range(NHIST):
        runs.append((f"np/exh2x1/h{h}", ["exh", "2", "1", str(h)]))
    for ps in range(BIG_2x2 if tier != "quick" else 3):
        runs.append((f"np/exh2x2/h1/p{ps}", ["exh", "2", "2", "1", str(ps)]))
    for i in range(2 if tier == "quick" else 12):
        runs.append((f"np/gen{i}", ["gen", str(seed * 1000 + 700 + i), "500" if tier == "quick" else "2500", "6", "8"]))
    runs.append(("np/stress8", ["stress", str(seed * 100 + 77), "8", "3000" if tier == "quick" else "10000"]))
    if tier == "quick":
        for i in range(4):
            runs.append((f"gen{i}", ["gen", str(seed * 1000 + i), "500", "6", "8"]))
        runs.append(("exh3x2/h1/p0", ["exh", "3", "2", "1", "0"]))
        for h in (2,):
            for s in range(16):
                runs.append((f"exh2x2/h{h}/big/{s}", ["exh", "2", "2", str(h), str(BIG_2x2), str(s), "16"]))
        for i, (th, calls) in enumerate([(4, 4000), (16, 2000)]):
            runs.append((f"stress{th}", ["stress", str(seed * 100 + i), str(th), str(calls)]))
        runs.append(("stress8big", ["stress", str(seed * 100 + 11), "8", "400000", "40"]))
        runs.append(("stress16big", ["stress", str(seed * 100 + 12), "16", "400000", "40"]))
        runs.append(("stress8x60", ["stress", str(seed * 100 + 9), "8", "6000", "60"]))
        runs.append(("stress3x60", ["stress", str(seed * 100 + 10), "3", "3000", "60"]))
    else:
        for h in range(NHIST):
            for s in range(16):
                runs.append((f"exh2x2/h{h}/big/{s}", ["exh", "2", "2", str(h), str(BIG_2x2), str(s), "16"]))
            for ps in range(3):
                runs.append((f"exh3x2/h{h}/p{ps}", ["exh", "3", "2", str(h), str(ps)]))
            for ps in range(BIG_3x1):
                runs.append((f"exh3x1/h{h}/p{ps}", ["exh", "3", "1", str(h), str(ps)]))
        for h in (2,):
            for s in range(81):
                runs.append((f"exh3x1/h{h}/big/{s}", ["exh", "3", "1", str(h), str(BIG_3x1), str(s), "81"]))
        for i in range(40):
            runs.append((f"gen{i}", ["gen", str(seed * 1000 + i), "2500", "6", "8"]))
        for i in range(4):
            runs.append((f"genwide{i}", ["gen", str(seed * 1000 + 500 + i), "400", "12", "20"]))
        for i, th in enumerate([4, 8, 16, 32, 64]):
            runs.append((f"stress{th}", ["stress", str(seed * 100 + i), str(th), "10000"]))
            runs.append((f"stress{th}b", ["stress", str(seed * 100 + 50 + i), str(th), "2000"]))
            runs.append((f"stress{th}r", ["stress", str(seed * 100 + 70 + i), str(th), "20000", "200"]))
    return runs


def run_one(args, keep=None):
    label, tail = args
    lines, hrc, err = vlib.pipe_to_driver([bin_of(label)] + tail, timeout=3000, keep=keep)
    r = pd(lines)
    r["label"], r["tail"], r["hrc"], r["err"] = label, tail, hrc, err
    return r


# ---------------------------------------------------------------------------- cases as data

def parse_case_block(lines):
    """init ops, programs, schedule of one transcript block (results stripped)."""
    case = {"init": [], "progs": {}, "sched": [], "threads": 0}
    for l in lines:
        l = l.strip()
        ts = l.split()
        if not ts or l.startswith("#"):
            continue
        if ts[0] == "init":
            case["init"].append(l.split(" => ")[0][5:])
        elif ts[0] == "threads":
            case["threads"] = int(ts[1])
        elif ts[0] == "prog":
            case["progs"][int(ts[1])] = ts[2:]
        elif ts[0] == "sched":
            case["sched"] = [int(x) for x in ts[1:]]
        elif ts[0] == "HANG":
            ex = vlib.field(l, "executed") or ""
            case["sched"] = [int(x) for x in ex.split(",") if x]
    n = max([case["threads"]] + [t + 1 for t in case["progs"]])
    case["progs"] = [case["progs"].get(t, []) for t in range(n)]
    return case


def case_lines(case):
    out = ["init " + o for o in case["init"]]
    out.append(f"threads {len(case['progs'])}")
    for t, p in enumerate(case["progs"]):
        out.append(f"prog {t} " + " ".join(p))
    out.append("sched " + " ".join(str(x) for x in case["sched"]))
    return out


def extract_block(path, case_id):
    block, on = [], False
    with open(path, errors="replace") as f:
        for line in f:
            if line.startswith("case "):
                if on:
                    break
                on = (line.split()[1] == case_id)
            elif on:
                block.append(line.rstrip("\n"))
    return block


def last_block(path):
    block = []
    with open(path, errors="replace") as f:
        for line in f:
            if line.startswith("case "):
                block = []
            else:
                block.append(line.rstrip("\n"))
    return block


def run_case(case, timeout=120):
    """Runs one case through harness and driver; returns the parsed driver output."""
    path = os.path.join(vlib.TMP, f"conc-{os.getpid()}-{time.time_ns()}.case")
    with open(path, "w") as f:
        f.write("case s\n" + "\n".join(case_lines(case)) + "\n")
    lines, hrc, err = vlib.pipe_to_driver([hb(), "run", path], timeout=timeout)
    os.unlink(path)
    r = pd(lines)
    r["hrc"] = hrc
    return r


def failing(r, kind):
    if kind == "mon":
        return bool(r["mon"])
    if kind == "hang":
        return bool(r["hang"]) or r["hrc"] == 3
    return bool(r["diff"]) or bool(r["mon"])


def shrink(case, kind):
    """ddmin over schedule ticks, then over calls, then over the initial history."""
    def test_with(**kw):
        c = dict(case); c.update(kw)
        return failing(run_case(c), kind)
    if not failing(run_case(case), kind):
        return case
    case = dict(case)
    if len(case["sched"]) >= 2:
        case["sched"] = vlib.ddmin(case["sched"], lambda s: test_with(sched=s))
    calls = [(t, c) for t, p in enumerate(case["progs"]) for c in p]
    def progs_of(cs):
        ps = [[] for _ in case["progs"]]
        for t, c in cs:
            ps[t].append(c)
        return ps
    if len(calls) >= 2:
        calls = vlib.ddmin(calls, lambda cs: test_with(progs=progs_of(cs)))
        case["progs"] = progs_of(calls)
    if len(case["init"]) >= 2:
        case["init"] = vlib.ddmin(case["init"], lambda i: test_with(init=i))
    if len(case["sched"]) >= 2:
        case["sched"] = vlib.ddmin(case["sched"], lambda s: test_with(sched=s))
    return case


def search_from(case, seed, n=300):
    """Correspondence broke without a monitor failure: same history and programs under other
    schedules (random ones), looking for a transcript the property monitor rejects."""
    rnd = random.Random(seed)
    nthreads = max(1, len(case["progs"]))
    steps = 6 * sum(len(p) for p in case["progs"]) + 4
    path = os.path.join(vlib.TMP, f"conc-search-{os.getpid()}.case")
    cands = []
    with open(path, "w") as f:
        for i in range(n):
            c = dict(case)
            c["sched"] = [rnd.randrange(nthreads) for _ in range(rnd.randrange(steps + 1))]
            cands.append(c)
            f.write(f"case c{i}\n" + "\n".join(case_lines(c)) + "\n")
    lines, hrc, err = vlib.pipe_to_driver([hb(), "run", path], timeout=300)
    os.unlink(path)
    r = pd(lines)
    if r["mon"]:
        cid = vlib.field(r["mon"][0], "case")
        return cands[int(cid[1:])], r["mon"][0]
    return None


NP_NOTE = [""]


def report_failures(prop, tier, seed, results):
    violations = 0
    seen = set()
    # runs with a verdict of the property monitor first, then correspondence breaks (at most three reports)
    for r in sorted(results, key=lambda r: (0 if r["mon"] else 1)):
        crashed = r["hrc"] not in (0, 3) or r["bad"]
        if not (r["mon"] or r["diff"] or r["hang"] or crashed):
            continue
        ACTIVE[0] = bin_of(r["label"])
        NP_NOTE[0] = ("build: np  (harness/np: specs built WITHOUT its default `parallel` feature; replay uses that build)"
                      if r["label"].startswith("np/") else "build: all features")
        keep = os.path.join(vlib.TMP, f"conc-tr-{os.getpid()}-{time.time_ns()}.txt")
        if r["hang"]:
            # a call did not terminate (CAS loop spinning, thread never reaching a yield point):
            # the per-case timeout is a violation; the schedule so far is the replay
            rr = run_one((r["label"], r["tail"]), keep=keep)
            block = last_block(keep) + [h for h in rr["hang"] if "executed=" in h]
            os.unlink(keep)
            case = parse_case_block(block)
            path = vlib.write_replay(prop, f"hang-{seed}-{len(seen)}",
                                     [NP_NOTE[0], f"property {prop}: {WHAT[TAG[0]]}", "a call did not terminate under this schedule (per-case timeout)",
                                      f"found by: h_conc {' '.join(r['tail'])}", f"replay: bin/check {prop} --replay <this file>"],
                                     case_lines(case), "conc")
            print(f"VIOLATION property={prop} replay={path}")
            violations += 1
        elif r["mon"] or r["diff"]:
            first = (r["mon"] or r["diff"])[0]
            kind = "mon" if r["mon"] else "diff"
            cid = vlib.field(first, "case")
            if cid.startswith("s"):     # stress run: no schedule to replay; the seed is the replay
                path = vlib.write_replay(prop, f"stress-{seed}-{len(seen)}",
                                         [NP_NOTE[0], f"property {prop}: {WHAT[TAG[0]]}", f"uncontrolled run on real threads failed: {first}",
                                          f"re-run: build/harness-target/debug/h_conc {' '.join(r['tail'])} (real preemption: may need repeating)"])
                print(f"VIOLATION property={prop} replay={path} no-failing-input-found")
                violations += 1
                continue
            run_one((r["label"], r["tail"]), keep=keep)
            case = parse_case_block(extract_block(keep, cid))
            os.unlink(keep)
            small = shrink(case, kind)
            canon = kind + ":" + vlib.canonical(case_lines(small))
            if canon in seen:
                continue
            seen.add(canon)
            if kind == "mon":
                rr = run_case(small)
                verdict = (rr["mon"] or [first])[0]
                path = vlib.write_replay(prop, f"{seed}-{len(seen)}",
                                         [NP_NOTE[0], f"property {prop}: {WHAT[TAG[0]]}",
                                          f"monitor verdict on the implementation's transcript: {verdict}",
                                          f"found by: h_conc {' '.join(r['tail'])} (case {cid}); schedule, programs and history minimised by ddmin",
                                          f"replay: bin/check {prop} --replay <this file>"], case_lines(small), "conc")
                print(f"VIOLATION property={prop} replay={path}")
            else:
                found = search_from(small, seed)
                if found:
                    fc, m = found
                    fc = shrink(fc, "mon")
                    path = vlib.write_replay(prop, f"{seed}-{len(seen)}",
                                             [NP_NOTE[0], f"property {prop}: {WHAT[TAG[0]]}", f"correspondence broke: {first}",
                                              f"directed search (other schedules of the same programs) found: {m}"], case_lines(fc), "conc")
                    print(f"VIOLATION property={prop} replay={path}")
                else:
                    path = vlib.write_replay(prop, f"corr-{seed}-{len(seen)}",
                                             [NP_NOTE[0], f"property {prop}: {WHAT[TAG[0]]}",
                                              "the implementation left the Lean small-step model (SpecsModel.Conc.Model vs h_conc) under this schedule;",
                                              "the theorems of SpecsModel.Props.C10 therefore no longer speak about this code.",
                                              f"first divergence: {first}",
                                              "directed search (300 other schedules of the same programs) found no transcript rejected by the property monitor"],
                                             case_lines(small), "conc")
                    print(f"VIOLATION property={prop} replay={path} no-failing-input-found")
            violations += 1
        else:
            path = vlib.write_replay(prop, f"crash-{seed}-{len(seen)}",
                                     [NP_NOTE[0], f"harness run {r['label']} did not complete: rc={r['hrc']} {r['bad'][:2]}", r["err"]])
            print(f"VIOLATION property={prop} replay={path} no-failing-input-found")
            violations += 1
        if violations >= 3:
            break
    return violations


def check(prop, tier, seed, t0):
    lean = vlib.build_lean(prop, thorough=(tier == "thorough"))
    violations = 0
    if _WS and lean["ok"]:
        rc, out = vlib.sh(["lake", "build", "conc_model"], cwd=vlib.LEAN, timeout=3000)
        if rc != 0:
            lean["ok"] = False; lean["reason"] = "conc_model does not build"; lean["log"] = out[-3000:]
    if not lean["ok"]:
        path = vlib.write_replay(prop, "proof", [f"theorems of SpecsModel.Props.{prop} do not check: {lean.get('reason')}", lean["log"]])
        print(f"VIOLATION property={prop} replay={path} no-failing-input-found")
        violations += 1
    ok, blog = vlib.build_harness([BIN])
    if ok:
        ok, blog = vlib.build_harness_np()
    results = []
    if not ok:
        path = vlib.write_replay(prop, "build", ["the harness does not build against /repo's working tree (is hook H1 — hooks/H1_yield_points.patch — applied?), "
                                                 "so the model cannot be tied to this code", blog])
        print(f"VIOLATION property={prop} replay={path} no-failing-input-found")
        violations += 1
    else:
        with ThreadPoolExecutor(max_workers=14) as ex:
            results = list(ex.map(run_one, plan(tier, seed)))
        # a watchdog timeout may be an artefact of a heavily loaded machine: run the invocation
        # once more, alone; only a timeout that repeats is reported (with the schedule so far)
        for i, r in enumerate(results):
            if r["hang"]:
                results[i] = run_one((r["label"], r["tail"]))
                results[i]["retried_after_timeout"] = True
        violations += report_failures(prop, tier, seed, results)
    stats = {}
    for r in results:
        for k, v in r["stats"].items():
            if isinstance(v, int):
                stats[k] = stats.get(k, 0) + v
    samples = []
    if ok:
        s = subprocess.run([vlib.hbin(BIN), "gen", str(seed), "2", "3", "3"], capture_output=True, text=True).stdout.splitlines()
        samples = [l for l in s if not l.startswith("domain")][:40]
    n_thm = len(lean.get("theorems", []))
    n_ok = len([n for n in lean.get("theorems", []) if n in lean.get("axioms", {}) and set(lean["axioms"][n]) <= vlib.ALLOWED_AXIOMS]) if lean["ok"] else 0
    coverage = {
        "obligations": n_thm, "discharged": n_ok,
        "checker_cmd": f"cd lean && lake build SpecsModel.Props.{prop} && lake env lean Audit/{prop}.lean" + (f" && lake env leanchecker SpecsModel.Props.{prop}" if tier == "thorough" else ""),
        "trusted_base": vlib.TRUSTED_BASE + [
            "interleavings are sequentially consistent: reorderings the hardware allows for the Relaxed atomics are outside the model and only SAMPLED "
            "(h_conc stress: real threads, real preemption, no scheduler installed)",
            "crossbeam SegQueue is an atomic FIFO; hibitset AtomicBitSet::add_atomic is one fetch_or; (&entities).join() is a snapshot (no yield point inside them)",
            "source hook H1 (hooks/H1_yield_points.patch, cfg specs_verif, add-only): the yield points separate exactly the atomic steps of the model",
        ],
        "theorems": lean.get("theorems", []),
        "axioms_used": sorted({a for n in lean.get("axioms", {}) for a in lean["axioms"][n]}),
        "evaluations": stats.get("cases", 0),
        "distinct": stats.get("distinct", 0),
        "distinct_nontrivial": stats.get("distinct_nontrivial", 0),
        "rule": "case = (initial sequential history, thread programs, schedule) executed by real OS threads on the real specs::World under the H1 controller and "
                "replayed tick by tick on the Lean small-step model; bounded-exhaustive = every schedule (only unfinished threads scheduled) of built-in programs of "
                "2 threads x 1-2 calls (thorough: incl. create,create||create,create, 3 threads x 1-2 calls) on 4 initial histories, plus seeded random histories/programs/schedules "
                "(<= 6 threads x 8 calls; thorough also 12 x 20); distinct = distinct (history, programs, schedule) hashes counted by the driver; "
                "non-trivial = at least one context switch inside a call AND at least one free-list pop",
        "traces_validated_against_impl": stats.get("cases", 0),
        "transcript_lines": stats.get("lines", 0),
        "scheduler_ticks": stats.get("ticks", 0),
        "calls_completed": stats.get("events", 0),
        "model_vs_impl_disagreements": sum(len(r["diff"]) for r in results),
        "impl_vs_monitor_failures": sum(len(r["mon"]) for r in results),
        "branch_hits": {k: stats.get(k, 0) for k in ("cas_failures", "cases_with_cas_failure", "pops", "switches_in_call", "stress_ok", "hangs")},
        "weak_memory": "sampled only: stress runs on real threads without a scheduler (" + ", ".join(r["label"] for r in results if r["label"].startswith("stress")) + ")",
        "runs": len(results),
        "samples": samples,
        "exhaustive": False,
    }
    assumptions = [
        "theorems are about the Lean small-step model (lean/SpecsModel/Conc/Model.lean over Model/Entity.lean); the model is tied to /repo only on the explored cases",
        "sequentially consistent interleavings of the atomic steps; weak-memory reorderings sampled on real threads only",
        "indices < 2^24, max_id < usize::MAX (Nat in the model); handles passed to calls were returned earlier (slots into the log)",
        "a lazy action only appends its tag; LazyUpdate's queue is an atomic FIFO",
    ]
    vlib.write_evidence(prop, tier, seed, coverage, assumptions, time.time() - t0, violations)
    return 1 if violations else 0


def c17_pass(tier, seed):
    """The pass bin/check C17 adds: scheduled and real-thread creation races, judged by the C17 monitor of the
    driver (ConcDom `MON C17`) and of the stress runs (`c17:` token). Returns (violations, stats)."""
    ok, blog = vlib.build_harness([BIN])
    if not ok:
        return 0, {"skipped": "h_conc does not build"}
    TAG[0] = "C17"
    try:
        runs = []
        for h in range(NHIST):
            runs.append((f"exh2x1/h{h}", ["exh", "2", "1", str(h)]))
        for i in range(6 if tier == "quick" else 24):
            runs.append((f"gen{i}", ["gen", str(seed * 1000 + 900 + i), "600" if tier == "quick" else "2500", "6", "10"]))
        for i, th in enumerate([4, 8, 16] if tier == "quick" else [2, 3, 4, 8, 8, 16, 16]):
            runs.append((f"stress{th}", ["stress", str(seed * 100 + 40 + i), str(th), "3000" if tier == "quick" else "20000", "10"]))
        with ThreadPoolExecutor(max_workers=8) as ex:
            results = list(ex.map(run_one, runs))
        v = report_failures("C17", tier, seed, results)
        stats = {}
        for r in results:
            for k, x in r["stats"].items():
                if isinstance(x, int):
                    stats[k] = stats.get(k, 0) + x
        return v, {"runs": [r["label"] for r in results], "cases": stats.get("cases", 0), "events": stats.get("events", 0),
                   "cas_failures": stats.get("cas_failures", 0), "pops": stats.get("pops", 0), "stress_ok": stats.get("stress_ok", 0)}
    finally:
        TAG[0] = "C10"


def replay(prop, path):
    TAG[0] = prop if prop in WHAT else "C10"
    ok, blog = vlib.build_harness([BIN])
    if not ok:
        print(blog); return 2
    if "# build: np" in open(path).read():
        ok, blog = vlib.build_harness_np()
        if not ok:
            print(blog); return 2
        ACTIVE[0] = vlib.hbin_np("h_conc_np")
    lines, hrc, err = vlib.pipe_to_driver([hb(), "run", path], timeout=120)
    for l in lines:
        print(l)
    r = pd(lines)
    if r["mon"] or r["diff"] or r["hang"] or hrc == 3:
        print(f"VIOLATION property={prop} replay={path}")
        return 1
    return 0
