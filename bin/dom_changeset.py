"""Changeset domain (h_changeset): scripts on the real specs::ChangeSet (property C16).

Transcript per case: entity/storage set-up ops, `cs_*` ops (collect / extend / add / clear, shared,
mutable and by-value joins with DenseVecStorage / VecStorage components and the entities resource),
every line carrying the payloads whose destructor ran.  The Lean driver replays the ops on
SpecsModel.ChangeSet.Model (DIFF, including the order of destruction) and runs the C16 monitor on the
implementation's transcript alone (MON).
"""
import glob, os, subprocess, sys, time
from concurrent.futures import ThreadPoolExecutor
import vlib

BIN = "h_changeset"
PROP = "C16"
DOMAIN = "changeset"
WHAT = ("a change set holds for each entity mentioned the combination of its amounts in arrival order and nothing else; "
        "joins pair each accumulated amount with that entity's components exactly once; consuming it yields each amount exactly once")
# probes appended to a script on which model and implementation diverged without a monitor verdict
PROBES = [["cs_join_shared"], ["cs_join_shared d v e"], ["cs_join_mut 777777", "cs_join_shared"], ["cs_consume all"],
          ["cs_consume 1"], ["cs_clear", "cs_join_shared"], ["cs_join_shared lend"], ["cs_consume lend all d"]]


def plan(tier, seed):
    """(label, argv tail, stream) — stream `live` keeps the handles of one set generation-consistent."""
    runs = []
    for f in sorted(glob.glob(os.path.join(vlib.VERIF, "corpus", DOMAIN, "*.ops"))):
        runs.append(("corpus:" + os.path.basename(f), ["run", f], "corpus"))
    if tier == "quick":
        for i in range(4):
            runs.append((f"live{i}", ["gen", str(seed * 1000 + i), "4000", "60", "live"], "live"))
        for i in range(2):
            runs.append((f"stale{i}", ["gen", str(seed * 1000 + 50 + i), "3000", "60", "stale"], "stale"))
        runs.append(("small", ["gen", str(seed * 1000 + 80), "6000", "12", "live"], "live"))
        runs.append(("long", ["gen", str(seed * 1000 + 90), "150", "1500", "live"], "live"))
    else:
        for i in range(16):
            runs.append((f"live{i}", ["gen", str(seed * 1000 + i), "25000", "70", "live"], "live"))
        for i in range(8):
            runs.append((f"stale{i}", ["gen", str(seed * 1000 + 50 + i), "20000", "70", "stale"], "stale"))
        for i in range(4):
            runs.append((f"small{i}", ["gen", str(seed * 1000 + 80 + i), "50000", "12", "live"], "live"))
        for i in range(4):
            runs.append((f"long{i}", ["gen", str(seed * 1000 + 90 + i), "100", "2000", "live"], "live"))
    return runs


def run_one(args):
    label, tail, stream = args
    lines, hrc, err = vlib.pipe_to_driver([vlib.hbin(BIN)] + tail)
    r = vlib.parse_driver(lines)
    r.update({"label": label, "tail": tail, "stream": stream, "hrc": hrc, "err": err})
    return r


def run_script_ops(ops):
    path = os.path.join(vlib.TMP, f"cscript-{os.getpid()}-{time.time_ns()}.ops")
    with open(path, "w") as f:
        f.write("case s\n" + "\n".join(ops) + "\n")
    lines, hrc, err = vlib.pipe_to_driver([vlib.hbin(BIN), "run", path], timeout=120)
    os.unlink(path)
    r = vlib.parse_driver(lines)
    r["hrc"] = hrc
    return r


def case_ops(r, case_id):
    path = os.path.join(vlib.TMP, f"ctr-{os.getpid()}-{time.time_ns()}.txt")
    vlib.pipe_to_driver([vlib.hbin(BIN)] + r["tail"], keep=path)
    ops = [o for o in vlib.extract_case(path, case_id) if o != "end"]
    os.unlink(path)
    return ops


def reason(mon_line):
    ts = mon_line.split()
    return ts[4] if len(ts) > 4 else "?"


def shrink_mon(ops, why):
    """ddmin keeping a monitor rejection with the same reason tag (any rejection if that is lost)."""
    def still(o):
        rr = run_script_ops(o)
        return any(reason(m) == why for m in rr["mon"])
    def still_any(o):
        return bool(run_script_ops(o)["mon"])
    if still(ops):
        return vlib.ddmin(ops, still)
    if still_any(ops):
        return vlib.ddmin(ops, still_any)
    return ops


def search_from(base_ops):
    """Correspondence broke without a monitor verdict: probe the diverged set with joins / consume / clear."""
    for k in range(len(base_ops), 0, -1):
        if k < len(base_ops) - 3:
            break
        for probe in PROBES:
            ops = base_ops[:k] + probe
            rr = run_script_ops(ops)
            if rr["mon"]:
                return ops, rr["mon"][0]
    return None


def report_failures(tier, seed, results):
    known = [k for k in vlib.known_findings() if k["property"] == PROP]
    violations = 0
    seen = set()
    for r in results:
        crashed = r["hrc"] != 0 or r["hang"] or r["bad"]
        if not r["mon"] and not r["diff"] and not crashed:
            continue
        if r["mon"]:
            m = r["mon"][0]
            cid = vlib.field(m, "case")
            why = reason(m)
            if why in seen:
                continue
            seen.add(why)
            ops = case_ops(r, cid)[:int(vlib.field(m, "line"))]
            ops = shrink_mon(ops, why)
            canon = vlib.canonical(ops)
            kf = [k for k in known if k["match"] == canon]
            if kf:
                print(f"KNOWN-FINDING: property={PROP} {kf[0]['text']}")
                continue
            rr = run_script_ops(ops)
            verdict = rr["mon"][0] if rr["mon"] else m
            path = vlib.write_replay(PROP, f"{seed}-{len(seen)}",
                                     [f"property {PROP}: {WHAT}", f"monitor verdict on the implementation's transcript: {verdict}",
                                      f"found by: h_changeset {' '.join(r['tail'])} (case {cid}); minimised by ddmin",
                                      f"replay: bin/check {PROP} --replay <this file>"], ops, DOMAIN)
            print(f"VIOLATION property={PROP} replay={path}")
            violations += 1
        elif r["diff"]:
            d = r["diff"][0]
            opname = " ".join((vlib.field(d, "op") or "[]").strip("[]").split()[:1])
            if "diff:" + opname in seen:
                continue
            seen.add("diff:" + opname)
            cid = vlib.field(d, "case")
            ops = case_ops(r, cid)[:int(vlib.field(d, "line"))]
            def still_diff(o):
                return bool(run_script_ops(o)["diff"])
            if still_diff(ops):
                ops = vlib.ddmin(ops, still_diff)
            found = search_from(ops)
            if found:
                fops, m = found
                fops = shrink_mon(fops, reason(m))
                path = vlib.write_replay(PROP, f"{seed}-{len(seen)}",
                                         [f"property {PROP}: {WHAT}", f"correspondence broke: {d}",
                                          f"probing the diverged set found: {m}"], fops, DOMAIN)
                print(f"VIOLATION property={PROP} replay={path}")
            else:
                path = vlib.write_replay(PROP, f"corr-{seed}-{len(seen)}",
                                         [f"property {PROP}: {WHAT}",
                                          "the implementation left the Lean model (SpecsModel.ChangeSet.Model vs h_changeset) on this script;",
                                          "the theorems of SpecsModel.Props.C16 therefore no longer speak about this code.",
                                          f"first divergence: {d}",
                                          "probing the diverged set (joins, consume, clear) found no transcript rejected by the property monitor"],
                                         ops, DOMAIN)
                print(f"VIOLATION property={PROP} replay={path} no-failing-input-found")
            violations += 1
        else:
            # the harness died (abort = panic while unwinding, or a signal): it prints every op before executing it, so the
            # last case of its transcript, up to and including the last line, is the failing script
            if "crash" in seen:
                continue
            seen.add("crash")
            keep = os.path.join(vlib.TMP, f"cs-crash-{os.getpid()}.txt")
            vlib.pipe_to_driver([vlib.hbin(BIN)] + r["tail"], keep=keep)
            cid, ops = vlib.last_case(keep) if os.path.exists(keep) else (None, [])
            if os.path.exists(keep):
                os.unlink(keep)
            def still_dies(o):
                return run_script_ops(o)["hrc"] not in (0, None)
            if ops and still_dies(ops):
                ops = vlib.ddmin(ops, still_dies)
                path = vlib.write_replay(PROP, f"abort-{seed}",
                                         [f"property {PROP}: {WHAT}",
                                          f"the process running the real code dies inside the last operation of this script (harness exit status {r['hrc']}; {r['err'].strip()[-300:]}):",
                                          "the operation neither yields its items nor returns, so the accumulated amounts are not delivered exactly once",
                                          f"found by: h_changeset {' '.join(r['tail'])} (case {cid}); minimised by ddmin",
                                          f"replay: bin/check {PROP} --replay <this file>"], ops, DOMAIN)
                print(f"VIOLATION property={PROP} replay={path}")
            else:
                path = vlib.write_replay(PROP, f"crash-{seed}", [f"harness run {r['label']} did not complete: rc={r['hrc']} {r['hang']} {r['bad'][:2]}", r["err"]])
                print(f"VIOLATION property={PROP} replay={path} no-failing-input-found")
            violations += 1
        if violations >= 4:
            break
    return violations


def ledger_pass(prop, tier, seed):
    """C08 over change sets: amounts added to a change set are component values in the sense of C08. Runs the
    changeset domain and reports the ledger verdicts of its monitor (`MON C08`: an amount neither yielded nor
    destroyed, or destroyed twice). Returns (violations, stats)."""
    ok, blog = vlib.build_harness([BIN])
    if not ok:
        return 0, {}
    runs = plan("quick", seed) if tier == "quick" else plan(tier, seed)[:12]
    with ThreadPoolExecutor(max_workers=8) as ex:
        results = list(ex.map(run_one, runs))
    violations, seen = 0, set()
    for r in results:
        ms = [m for m in r["mon"] if m.split()[1] == "C08"]
        if not ms:
            continue
        m = ms[0]
        why = " ".join(m.split("op=[")[0].split()[4:8])
        if why in seen:
            continue
        seen.add(why)
        cid = vlib.field(m, "case")
        ops = case_ops(r, cid)[:int(vlib.field(m, "line"))]
        def still(o):
            return any(x.split()[1] == "C08" for x in run_script_ops(o)["mon"])
        if still(ops):
            ops = vlib.ddmin(ops, still)
        path = vlib.write_replay(prop, f"cs-{seed}-{len(seen)}",
                                 [f"property {prop}: every value moved into the world (here: added to a change set) is returned or destroyed exactly once",
                                  f"monitor verdict on the implementation's transcript: {m}",
                                  f"found by: h_changeset {' '.join(r['tail'])} (case {cid}); minimised by ddmin",
                                  f"replay: bin/check {prop} --replay <this file>   (changeset domain)"], ops, DOMAIN)
        print(f"VIOLATION property={prop} replay={path}")
        violations += 1
        if violations >= 2:
            break
    stats = {"changeset_cases": sum(int(r["stats"].get("cases", 0)) for r in results),
             "changeset_destroyed": sum(int(r["stats"].get("destroyed", 0)) for r in results),
             "changeset_partial_consumes": sum(int(r["stats"].get("partial_consumes", 0)) for r in results)}
    return violations, stats


def fault_pass(prop, tier, seed):
    """C19 over change sets (`ChangeSet::clear` is one of the clears the property names): scripts in which `clear()` runs
    while the destructor of an amount panics (caught), followed by joins, additions, further clears and the drop of the
    set. Every verdict of the changeset monitor after such a clear (`MON C19`), and a harness process that dies, counts.
    Returns (violations, stats)."""
    ok, blog = vlib.build_harness([BIN])
    if not ok:
        return 0, {}
    n = 3 if tier == "quick" else 12
    runs = [(f"fault{i}", ["gen", str(seed * 1000 + 600 + i), "3000" if tier == "quick" else "15000", "40", "fault"], "fault") for i in range(n)]
    with ThreadPoolExecutor(max_workers=8) as ex:
        results = list(ex.map(run_one, runs))
    violations, seen = 0, set()
    for r in results:
        ms = [m for m in r["mon"] if m.split()[1] == "C19"]
        crashed = r["hrc"] != 0 or r["bad"]
        if ms:
            m = ms[0]
            why = " ".join(m.split("op=[")[0].split()[4:16])
            if why in seen:
                continue
            seen.add(why)
            cid = vlib.field(m, "case")
            ops = case_ops(r, cid)[:int(vlib.field(m, "line"))]
            def still(o):
                return any(x.split()[1] == "C19" for x in run_script_ops(o)["mon"])
            if still(ops):
                ops = vlib.ddmin(ops, still)
            path = vlib.write_replay(prop, f"cs-{seed}-{len(seen)}",
                                     [f"property {prop}: after a caught destructor panic inside ChangeSet::clear() no amount is destroyed twice or lost, no destroyed amount is visible, and the set keeps behaving like a (now empty) change set",
                                      f"monitor verdict on the implementation's transcript: {m}",
                                      f"found by: h_changeset {' '.join(r['tail'])} (case {cid}); minimised by ddmin",
                                      f"replay: bin/check {prop} --replay <this file>   (changeset domain)"], ops, DOMAIN)
            print(f"VIOLATION property={prop} replay={path}")
            violations += 1
        elif crashed:
            # the process running the real code died: the transcript so far ends with the op that killed it
            keep = os.path.join(vlib.TMP, f"cfault-{os.getpid()}.txt")
            vlib.pipe_to_driver([vlib.hbin(BIN)] + r["tail"], keep=keep)
            _cid, ops = vlib.last_case(keep) if os.path.exists(keep) else (None, [])
            ops = [o for o in ops if o != "end"]
            if os.path.exists(keep):
                os.unlink(keep)
            def dies(o):
                return run_script_ops(o).get("hrc") not in (0, None)
            if ops and dies(ops):
                ops = vlib.ddmin(ops, dies)
                path = vlib.write_replay(prop, f"cs-abort-{seed}",
                                         [f"property {prop}: after a caught destructor panic inside ChangeSet::clear() the set keeps behaving like a change set",
                                          f"the process running the real code dies inside the last operation of this script (harness exit status {r['hrc']}; {r['err'].strip()[-300:]})",
                                          f"found by: h_changeset {' '.join(r['tail'])}; minimised by ddmin",
                                          f"replay: bin/check {prop} --replay <this file>   (changeset domain)"], ops, DOMAIN)
                print(f"VIOLATION property={prop} replay={path}")
            else:
                path = vlib.write_replay(prop, f"cs-crash-{seed}", [f"harness run {r['label']} did not complete: rc={r['hrc']} {r['bad'][:2]}", r["err"]])
                print(f"VIOLATION property={prop} replay={path} no-failing-input-found")
            violations += 1
        if violations >= 2:
            break
    stats = {"changeset_fault_cases": sum(int(r["stats"].get("cases", 0)) for r in results),
             "changeset_clears": sum(int(r["stats"].get("clears", 0)) for r in results)}
    return violations, stats


JOIN_INFO = {}


def join_pass(tier, seed):
    """Change sets of a PLAIN amount type (`ChangeSet<i64>`, no destructor) as members of statically typed joins — shared,
    mutable and by-value, after the set was used, cleared and refilled in scrambled order: the join domain's harness and
    its independent spec monitor (C06). A rejection of a join that has a change-set member is a C16 verdict too."""
    import dom_join, re
    ok, _ = vlib.build_harness([dom_join.BIN_H3])
    if not ok:
        return 0
    binp = vlib.hbin(dom_join.BIN_H3)
    n = 2 if tier == "quick" else 12
    jobs = [(binp, f"cs-join{i}", ["gen", str(seed * 1000 + 900 + i), "60" if tier == "quick" else "400", "small"], 600) for i in range(n)]
    # ... and worlds whose indices cross 4095 / 4096 (change sets with entries on both sides of a 4096-boundary)
    jobs += [(binp, f"cs-joinmid{i}", ["gen", str(seed * 1000 + 950 + i), "25" if tier == "quick" else "120", "mid"], 900) for i in range(1 if tier == "quick" else 4)]
    with ThreadPoolExecutor(max_workers=4) as ex:
        results = list(ex.map(dom_join.run_one, jobs))
    cs_member = re.compile(r"\b[smc\?]*[smc]1[45]\b")
    violations = 0
    ops_seen = 0
    for r in results:
        ops_seen += int(r["stats"].get("lines", 0)) if isinstance(r["stats"].get("lines", 0), int) else 0
        for m in r["mon"]:
            op = vlib.field(m, "op") or ""
            if not cs_member.search(op):
                continue
            cid = vlib.field(m, "case")
            keep = os.path.join(vlib.TMP, f"csjoin-{os.getpid()}.txt")
            dom_join.pipe([binp] + r["tail"], keep=keep, timeout=600)
            lines = []
            if os.path.exists(keep):
                on = False
                for line in open(keep):
                    line = line.rstrip("\n")
                    if line.startswith("case "):
                        on = (line.split()[1] == cid)
                    elif on and line and not line.startswith("#"):
                        lines.append(line.split(" => ")[0])
                os.unlink(keep)
            # keep the set-up lines and the rejected join only
            opl = op.strip("[]")
            lines = [x for x in lines if not x.startswith("join ") or x.strip() == opl.strip()]
            path = vlib.write_replay(PROP, f"join-{seed}-{violations}",
                                     [f"property {PROP}: {WHAT}",
                                      f"a join with a change-set member is rejected by the join domain's spec monitor: {m[:700]}",
                                      f"found by: h_join_h3 {' '.join(r['tail'])} (case {cid})",
                                      f"replay: bin/check {PROP} --replay <this file>   (join domain)"], lines, "join")
            print(f"VIOLATION property={PROP} replay={path}")
            violations += 1
            break
        if violations >= 2:
            break
    JOIN_INFO.update({"join_domain_runs": len(results), "join_domain_lines": ops_seen})
    return violations


def check(prop, tier, seed, t0):
    assert prop == PROP
    lean = vlib.build_lean(prop, thorough=(tier == "thorough"))
    violations = 0
    if not lean["ok"]:
        path = vlib.write_replay(prop, "proof", [f"theorems of SpecsModel.Props.{prop} do not check: {lean.get('reason')}", lean["log"]])
        print(f"VIOLATION property={prop} replay={path} no-failing-input-found")
        violations += 1
    ok, blog = vlib.build_harness([BIN])
    results = []
    if not ok:
        path = vlib.write_replay(prop, "build", ["the harness does not build against /repo's working tree, so the model cannot be tied to this code", blog])
        print(f"VIOLATION property={prop} replay={path} no-failing-input-found")
        violations += 1
    else:
        with ThreadPoolExecutor(max_workers=8) as ex:
            results = list(ex.map(run_one, plan(tier, seed)))
        violations += report_failures(tier, seed, results)
        violations += join_pass(tier, seed)
    stats = {}
    for r in results:
        for k, v in r["stats"].items():
            if isinstance(v, int):
                stats[k] = max(stats.get(k, 0), v) if k == "max_index" else stats.get(k, 0) + v
    by_stream = {}
    for r in results:
        s = by_stream.setdefault(r["stream"], {"cases": 0, "gen_conflicts": 0, "stale_pairings": 0})
        for k in s:
            s[k] += r["stats"].get(k, 0) if isinstance(r["stats"].get(k, 0), int) else 0
    samples = []
    if ok:
        s = subprocess.run([vlib.hbin(BIN), "gen", str(seed), "2", "14", "live"], capture_output=True, text=True).stdout.splitlines()
        samples = [l for l in s if not l.startswith("domain")][:30]
        f = os.path.join(vlib.VERIF, "corpus", DOMAIN, "same_index_other_generation.ops")
        if os.path.exists(f):
            s = subprocess.run([vlib.hbin(BIN), "run", f], capture_output=True, text=True).stdout.splitlines()
            samples += ["# excluded case (one index, two generations) on the real code:"] + [l for l in s if not l.startswith("domain")][:20]
    n_thm = len(lean.get("theorems", []))
    n_ok = len([n for n in lean.get("theorems", []) if n in lean.get("axioms", {}) and set(lean["axioms"][n]) <= vlib.ALLOWED_AXIOMS]) if lean["ok"] else 0
    coverage = {
        "obligations": n_thm, "discharged": n_ok,
        "checker_cmd": f"cd lean && lake build SpecsModel.Props.{prop} && lake env lean Audit/{prop}.lean" + (f" && lake env leanchecker SpecsModel.Props.{prop}" if tier == "thorough" else ""),
        "trusted_base": vlib.TRUSTED_BASE + [
            "hibitset BitSet / BitAnd / BitIter = finite set, intersection, ascending iteration (Level A; BitIter is the subject of C06/C07); "
            "the join drivers JoinIter / JoinLendIter call get(value, id) once per index of the combined mask (C06)",
            "the instrumented payload type of the harness (Amount = token into a side table, += concatenates, Drop logs): its destructor log is what "
            "'destroyed' means in the transcript",
        ],
        "theorems": lean.get("theorems", []),
        "axioms_used": sorted({a for n in lean.get("axioms", {}) for a in lean["axioms"][n]}),
        "evaluations": stats.get("cases", 0),
        "distinct_nontrivial": stats.get("distinct_nontrivial", 0),
        "rule": "cases = op scripts executed on a real specs::World + specs::ChangeSet<Amount> (entities created/deleted so that indices are sparse and reused; "
                "sets built by collect / extend / add in any mixture, cleared, re-filled; shared, mutable and by-value joins — plain and lending — with "
                "DenseVecStorage, VecStorage and Entities members, by-value joins stopped after 0-3 items or run to the end) and replayed through the Lean model "
                "(results, yielded items and the ORDER of destroyed payloads compared) and through the C16 monitor (expected per-index accumulation recomputed from "
                "the pair history; each join item checked against it and against the storage dumps of the same line; each amount yielded or destroyed exactly once). "
                "A case is non-trivial when some index received at least two amounts in one set and at least one join yielded an item; "
                "distinct = distinct op scripts (hash), counted by the driver. "
                "Stream `live`: all handles of a set alive together (generation-consistent: gen_conflicts=0, every entity joined is the entity the amounts were given for). "
                "Stream `stale` + corpus/changeset/same_index_other_generation.ops run the EXCLUDED case on the real code: a pair naming a dead handle (i,g) and a pair "
                "naming the entity (i,g+1) that reused the index accumulate into ONE slot, in arrival order, and a join with the entities resource pairs the whole sum "
                "with the living entity (i,g+1) (counted as gen_conflicts / stale_pairings); model and monitor, which are per index, agree with the code there too",
        "traces_validated_against_impl": stats.get("cases", 0),
        "transcript_lines": stats.get("lines", 0),
        "model_vs_impl_disagreements": sum(len(r["diff"]) for r in results),
        "impl_vs_monitor_failures": sum(len(r["mon"]) for r in results),
        "branch_hits": {k: stats.get(k, 0) for k in ("pairs", "repeats", "joins_shared", "joins_mut", "consumes", "partial_consumes", "lend_joins",
                                                     "items", "yielded", "clears", "destroyed", "gen_conflicts", "stale_pairings", "reused_idx", "max_index")},
        "streams": by_stream,
        "runs": [r["label"] for r in results],
        "plain_amount_joins": JOIN_INFO,
        "samples": samples,
        "exhaustive": False,
    }
    assumptions = [
        "theorems are about the Lean model (lean/SpecsModel/ChangeSet/Model.lean); the model is tied to /repo only on the explored scripts (differential run above)",
        "the change set is keyed by entity INDEX: 'per entity' in the property is 'per index' in the theorems; they coincide (C16.per_entity_eq_per_index) when the handles "
        "fed to one set agree on generation whenever they agree on index, which holds for handles alive together (C16.alive_handles_consistent, C01); "
        "otherwise two generations of one index share a slot (C16.same_index_other_generation_shares_slot; observed on the real code, see rule/samples)",
        "amounts are integer sequences under concatenation (a free monoid: the order of combination is fully visible); AddAssign impls that panic are out of scope",
        "indices < 2^24 (Nat in the model); allocation failure out of scope",
        "joins are driven by JoinIter/JoinLendIter over BitAnd of the masks (modelled as ascending iteration over the intersection, Level A)",
    ]
    vlib.write_evidence(prop, tier, seed, coverage, assumptions, time.time() - t0, violations)
    return 1 if violations else 0


def replay(prop, path):
    if "# domain join" in open(path).read():
        import dom_join
        return dom_join.replay("C06", path)
    ok, blog = vlib.build_harness([BIN])
    if not ok:
        print(blog); return 2
    keep = os.path.join(vlib.TMP, f"creplay-{os.getpid()}.txt")
    lines, hrc, err = vlib.pipe_to_driver([vlib.hbin(BIN), "run", path], keep=keep)
    if os.path.exists(keep):
        for l in open(keep):
            print("  " + l.rstrip())      # the implementation's transcript
        os.unlink(keep)
    for l in lines:
        print(l)
    r = vlib.parse_driver(lines)
    if r["mon"] or r["diff"] or r["bad"] or r["hang"] or hrc != 0:
        print(f"VIOLATION property={prop} replay={path}")
        return 1
    return 0
