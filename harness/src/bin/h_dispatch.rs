//! h_dispatch: dispatch-domain transcripts (property C11) from the real `specs::DispatcherBuilder`.
//!   h_dispatch gen <seed> <cases> <maxsys>   random system graphs (first case is the declaration table)
//!   h_dispatch run <file>                    execute the scripts in <file> (`case id` + op lines)
//!   h_dispatch stress <file> <rounds>        like run, but every `run t n` line is executed <rounds> times
//!                                            (first failing report wins) — used to exhibit an overlap/panic
//!
//! Script lines (a line is `op` or `op => res`; res ignored on input):
//!   sys <name> <a> <b> <c> <e> <l> <rt> <deps>   a,b,c in {n,r,w}: no access / ReadStorage / WriteStorage of
//!                                                component A,B,C; e,l in {0,1}: Entities / Read<LazyUpdate>;
//!                                                rt 1..5 running time; deps = comma list of names or `-`
//!            => reads=<ids> writes=<ids>         real `SystemData::reads()/writes()` of the system's data tuple
//!   barrier  => ok
//!   build    => <layout>                         `{:?}` of the DispatcherBuilder: stages `[`..`]` of groups `(`..`)`
//!   run <threads> <reps>                         build with a rayon pool of <threads>, dispatch <reps> times
//!            => ok runs=<per system> overlaps=<n> depviol=<n>   |   panic
//!   table                                        (alone in a case) prints one `decl` line per SystemData kind
//!   decl <kind> [<t>] => reads=.. writes=.. borrows=<res>:<s|x>,..   reads()/writes() and the borrow state after fetch
//! Resource numbers: 0 EntitiesRes, 1 LazyUpdate, 2+t MaskedStorage<component t>, 9xx anything else.
use specs::prelude::*;
use specs::RunningTime;
use specs::shred::{Resource, ResourceId, SystemData as ShredSystemData};
use specs::storage::MaskedStorage;
use specs::world::EntitiesRes;
use std::io::Write as _;
use std::marker::PhantomData;
use std::panic::{catch_unwind, AssertUnwindSafe};
use std::sync::atomic::{AtomicI64, AtomicU64, Ordering::SeqCst};
use std::sync::Arc;
use vh::rng::Rng;

// ------------------------------------------------------------------ components and system kinds

#[derive(Default, Clone, Copy)]
pub struct CA(u32);
#[derive(Default, Clone, Copy)]
pub struct CB(u32);
#[derive(Default, Clone, Copy)]
pub struct CC(u32);
impl Component for CA { type Storage = VecStorage<Self>; }
impl Component for CB { type Storage = DenseVecStorage<Self>; }
impl Component for CC { type Storage = HashMapStorage<Self>; }
/// Zero-sized flag component (declaration table only: resource 5).
#[derive(Default, Clone, Copy)]
pub struct CZ;
impl Component for CZ { type Storage = NullStorage<Self>; }

/// Component whose storage type has NO default: it can only be registered with `register_with_storage`; the `setup` of a
/// system-data handle for it finds the storage in place and must leave it alone (declaration table only).
pub struct CN(pub u32);
pub struct NoDefaultStorage<T>(VecStorage<T>);
impl<T> specs::storage::UnprotectedStorage<T> for NoDefaultStorage<T> {
    type AccessMut<'a> = &'a mut T where T: 'a;
    unsafe fn clean<B>(&mut self, has: B) where B: specs::hibitset::BitSetLike { unsafe { self.0.clean(has) } }
    unsafe fn get(&self, id: specs::world::Index) -> &T { unsafe { self.0.get(id) } }
    unsafe fn get_mut(&mut self, id: specs::world::Index) -> &mut T { unsafe { self.0.get_mut(id) } }
    unsafe fn insert(&mut self, id: specs::world::Index, v: T) { unsafe { self.0.insert(id, v) } }
    unsafe fn remove(&mut self, id: specs::world::Index) -> T { unsafe { self.0.remove(id) } }
}
impl<T> specs::storage::TryDefault for NoDefaultStorage<T> {
    fn try_default() -> Result<Self, String> { Err("this storage type has no default".into()) }
}
impl Component for CN { type Storage = NoDefaultStorage<Self>; }

/// `decl registered` line: the storage of `CN` is registered explicitly, then both handles' `setup` run, then it is used.
fn registered_line() -> String {
    let mut w = World::new();
    w.register_with_storage::<_, CN>(|| NoDefaultStorage(VecStorage::default()));
    let rd = catch_unwind(AssertUnwindSafe(|| { <ReadStorage<CN> as ShredSystemData>::setup(&mut w); })).is_ok();
    let wr = catch_unwind(AssertUnwindSafe(|| { <WriteStorage<CN> as ShredSystemData>::setup(&mut w); })).is_ok();
    let used = catch_unwind(AssertUnwindSafe(|| {
        let e = w.create_entity().with(CN(7)).build();
        let st = w.read_storage::<CN>();
        st.get(e).map(|c| c.0) == Some(7)
    })).unwrap_or(false);
    format!("read={} write={} used={}", if rd { "ok" } else { "panic" }, if wr { "ok" } else { "panic" }, if used { "ok" } else { "bad" })
}

/// A member of a system's data tuple, chosen by a marker type.
pub trait Pick<'a> {
    type Data: ShredSystemData<'a>;
    /// Touch the fetched data (so that the access is real).
    fn touch(d: &mut Self::Data) -> u32;
}
pub struct NoM;
pub struct RdM<T>(PhantomData<T>);
pub struct WrM<T>(PhantomData<T>);
pub struct EntM;
pub struct LazyM;
impl<'a> Pick<'a> for NoM {
    type Data = ();
    fn touch(_: &mut ()) -> u32 { 0 }
}
impl<'a, T: Component> Pick<'a> for RdM<T> {
    type Data = ReadStorage<'a, T>;
    fn touch(d: &mut Self::Data) -> u32 { d.count() as u32 }
}
impl<'a, T: Component + Default> Pick<'a> for WrM<T> {
    type Data = WriteStorage<'a, T>;
    fn touch(d: &mut Self::Data) -> u32 {
        // components for entities other systems have just created (and possibly asked to delete): whatever `insert`
        // answers, it must not panic
        let ep = EPOCH.load(SeqCst);
        let hs: Vec<(u64, Entity)> = { let h = HANDLES.lock().unwrap(); h.iter().rev().take(4).cloned().collect() };
        for (hep, e) in hs {
            let _ = d.insert(e, T::default());
            // an entity created during this very dispatch is alive (whatever index it got, a recycled one included): the
            // idiomatic `entry(e).unwrap()` of an initialising system must not panic
            if hep == ep { let _ = d.entry(e).unwrap(); }
        }
        let mut n = 0;
        for _c in (&mut *d).join() { n += 1; }
        n
    }
}
/// Handles published by the systems that hold `Entities` (created in this dispatch, some of them with a deletion already
/// requested); the systems that hold a `WriteStorage` insert components for them.
static HANDLES: std::sync::Mutex<Vec<(u64, Entity)>> = std::sync::Mutex::new(Vec::new());
/// Number of the dispatch in progress: a handle published during it denotes an entity that is alive until the `maintain`
/// behind this dispatch (its deletion, if requested, is deferred).
static EPOCH: AtomicU64 = AtomicU64::new(0);
/// Set before every dispatch: the first lazy-holding system that runs takes it and queues a big burst.
static BIG_LAZY: std::sync::atomic::AtomicBool = std::sync::atomic::AtomicBool::new(false);
/// Watchdog: start time (ms since process start, +1) of the dispatch in progress, 0 when none is. A dispatch that does not
/// return within `H_DISPATCH_LIMIT_MS` (default 60 s) ends the process with exit status 3 after printing what is known.
static DISPATCH_SINCE: AtomicU64 = AtomicU64::new(0);

impl<'a> Pick<'a> for EntM {
    type Data = Entities<'a>;
    // systems that hold the entity resource really use it: atomic creations (fresh indices), a deferred deletion, and
    // the sequential and the parallel join over the entities — all of which other systems of the same dispatch may be
    // doing at the same time
    fn touch(d: &mut Self::Data) -> u32 {
        let a = d.create();
        let b = d.create();
        let _ = d.delete(b);
        // ... and a burst of short-lived ones: systems of one stage pop the free list (refilled by every `maintain`) at the
        // same time
        for _ in 0..24 { let e = d.create(); let _ = d.delete(e); }
        // a batch iterator that is still alive while the same system creates through another path
        { let mut it = d.create_iter(); let x = it.next().unwrap(); let y = d.create(); let z = it.next().unwrap(); drop(it);
          let _ = d.delete(x); let _ = d.delete(y); let _ = d.delete(z); }
        { let ep = EPOCH.load(SeqCst); let mut h = HANDLES.lock().unwrap(); h.push((ep, a)); h.push((ep, b)); if h.len() > 64 { h.drain(..32); } }
        let n = d.join().count();
        let m = (&**d).par_join().count();
        (n + m) as u32
    }
}
impl<'a> Pick<'a> for LazyM {
    type Data = Read<'a, LazyUpdate>;
    // systems that hold the lazy-update resource really queue actions (several, so that systems of one stage push
    // at the same time); the queue is drained by `maintain` after every dispatch
    fn touch(d: &mut Self::Data) -> u32 {
        // (one system per dispatch queues several thousand actions: nothing drains the queue before the `maintain` behind
        //  the dispatch, so queueing must never wait for room)
        let n = if BIG_LAZY.swap(false, SeqCst) { 4500 } else { 16 };
        for _ in 0..n { d.exec(|_| {}); }
        n
    }
}

/// Instrumentation shared by the systems of one dispatcher.
pub struct Shared {
    readers: [AtomicI64; 3],
    writers: [AtomicI64; 3],
    overlaps: AtomicU64,
    clock: AtomicU64,
    runs: Vec<AtomicU64>,
    enter: Vec<AtomicU64>,
    exit: Vec<AtomicU64>,
    spin: u64,
}

pub struct GSys<PA, PB, PC, PE, PL> {
    idx: usize,
    modes: [u8; 3],
    rt: u8,
    sh: Arc<Shared>,
    _p: PhantomData<fn() -> (PA, PB, PC, PE, PL)>,
}

impl<'a, PA, PB, PC, PE, PL> System<'a> for GSys<PA, PB, PC, PE, PL>
where
    PA: Pick<'a>, PB: Pick<'a>, PC: Pick<'a>, PE: Pick<'a>, PL: Pick<'a>,
{
    type SystemData = (PA::Data, PB::Data, PC::Data, PE::Data, PL::Data);

    fn run(&mut self, mut d: Self::SystemData) {
        let sh = &*self.sh;
        sh.enter[self.idx].store(sh.clock.fetch_add(1, SeqCst) + 1, SeqCst);
        // enter: announce the accesses this system really has (ReadStorage = reader, WriteStorage = writer)
        for c in 0..3 {
            match self.modes[c] {
                1 => {
                    sh.readers[c].fetch_add(1, SeqCst);
                    if sh.writers[c].load(SeqCst) != 0 { sh.overlaps.fetch_add(1, SeqCst); }
                }
                2 => {
                    let w = sh.writers[c].fetch_add(1, SeqCst);
                    if w != 0 || sh.readers[c].load(SeqCst) != 0 { sh.overlaps.fetch_add(1, SeqCst); }
                }
                _ => {}
            }
        }
        let mut acc = PA::touch(&mut d.0) + PB::touch(&mut d.1) + PC::touch(&mut d.2) + PE::touch(&mut d.3) + PL::touch(&mut d.4);
        // widen the window
        for i in 0..sh.spin * (self.rt as u64) {
            acc = acc.wrapping_mul(31).wrapping_add(i as u32);
            std::hint::spin_loop();
        }
        std::hint::black_box(acc);
        if sh.spin > 0 && self.idx % 3 == 0 { std::thread::yield_now(); }
        // re-check at the end of the window
        for c in 0..3 {
            match self.modes[c] {
                1 => { if sh.writers[c].load(SeqCst) != 0 { sh.overlaps.fetch_add(1, SeqCst); } }
                2 => { if sh.writers[c].load(SeqCst) != 1 || sh.readers[c].load(SeqCst) != 0 { sh.overlaps.fetch_add(1, SeqCst); } }
                _ => {}
            }
        }
        for c in 0..3 {
            match self.modes[c] {
                1 => { sh.readers[c].fetch_sub(1, SeqCst); }
                2 => { sh.writers[c].fetch_sub(1, SeqCst); }
                _ => {}
            }
        }
        sh.runs[self.idx].fetch_add(1, SeqCst);
        sh.exit[self.idx].store(sh.clock.fetch_add(1, SeqCst) + 1, SeqCst);
    }

    fn running_time(&self) -> RunningTime {
        match self.rt {
            1 => RunningTime::VeryShort,
            2 => RunningTime::Short,
            3 => RunningTime::Average,
            4 => RunningTime::Long,
            _ => RunningTime::VeryLong,
        }
    }
}

/// Expands `$body` with the marker type `$P` bound according to a run-time mode.
macro_rules! pick_rw {
    ($m:expr, $T:ty, $P:ident, $body:expr) => {
        match $m {
            0 => { type $P = NoM; $body }
            1 => { type $P = RdM<$T>; $body }
            _ => { type $P = WrM<$T>; $body }
        }
    };
}
macro_rules! pick_flag {
    ($m:expr, $Y:ty, $P:ident, $body:expr) => {
        if $m { type $P = $Y; $body } else { type $P = NoM; $body }
    };
}
/// The 3*3*3*2*2 = 108 system types, instantiated by macro.
macro_rules! with_sys_type {
    ($spec:expr, |$PA:ident, $PB:ident, $PC:ident, $PE:ident, $PL:ident| $body:expr) => {
        pick_rw!($spec.modes[0], CA, $PA,
            pick_rw!($spec.modes[1], CB, $PB,
                pick_rw!($spec.modes[2], CC, $PC,
                    pick_flag!($spec.ent, EntM, $PE,
                        pick_flag!($spec.lazy, LazyM, $PL, $body)))))
    };
}

// ------------------------------------------------------------------ scripts

#[derive(Clone, Debug)]
struct SysSpec {
    name: String,
    modes: [u8; 3],
    ent: bool,
    lazy: bool,
    rt: u8,
    deps: Vec<String>,
}

#[derive(Clone, Debug)]
enum Line {
    Sys(SysSpec),
    Barrier,
    Build,
    Run(usize, usize),
    Table,
}

fn mode_ch(m: u8) -> char { match m { 0 => 'n', 1 => 'r', _ => 'w' } }

fn show_line(l: &Line) -> String {
    match l {
        Line::Sys(s) => format!(
            "sys {} {} {} {} {} {} {} {}",
            s.name, mode_ch(s.modes[0]), mode_ch(s.modes[1]), mode_ch(s.modes[2]),
            s.ent as u8, s.lazy as u8, s.rt,
            if s.deps.is_empty() { "-".to_string() } else { s.deps.join(",") }
        ),
        Line::Barrier => "barrier".into(),
        Line::Build => "build".into(),
        Line::Run(t, n) => format!("run {} {}", t, n),
        Line::Table => "table".into(),
    }
}

fn parse_line(line: &str) -> Option<Line> {
    let l = line.split(" => ").next().unwrap().trim();
    let ts: Vec<&str> = l.split_whitespace().collect();
    let md = |s: &str| match s { "n" => Some(0u8), "r" => Some(1), "w" => Some(2), _ => None };
    Some(match ts.as_slice() {
        ["sys", name, a, b, c, e, l, rt, deps] => Line::Sys(SysSpec {
            name: name.to_string(),
            modes: [md(a)?, md(b)?, md(c)?],
            ent: *e == "1",
            lazy: *l == "1",
            rt: rt.parse().ok().filter(|x| (1..=5).contains(x))?,
            deps: if *deps == "-" { vec![] } else { deps.split(',').map(|s| s.to_string()).collect() },
        }),
        ["barrier"] => Line::Barrier,
        ["build"] => Line::Build,
        ["run", t, n] => Line::Run(t.parse().ok()?, n.parse().ok()?),
        ["table"] => Line::Table,
        _ => return None,
    })
}

// ------------------------------------------------------------------ resource numbering, declarations

fn res_num(id: &ResourceId) -> u32 {
    if *id == ResourceId::new::<EntitiesRes>() { 0 }
    else if *id == ResourceId::new::<LazyUpdate>() { 1 }
    else if *id == ResourceId::new::<MaskedStorage<CA>>() { 2 }
    else if *id == ResourceId::new::<MaskedStorage<CB>>() { 3 }
    else if *id == ResourceId::new::<MaskedStorage<CC>>() { 4 }
    else if *id == ResourceId::new::<MaskedStorage<CZ>>() { 5 }
    else if *id == ResourceId::new::<CA>() { 902 }
    else if *id == ResourceId::new::<CB>() { 903 }
    else if *id == ResourceId::new::<CC>() { 904 }
    else { 999 }
}

fn show_ids(v: &[ResourceId]) -> String {
    if v.is_empty() { "-".into() } else { v.iter().map(|r| res_num(r).to_string()).collect::<Vec<_>>().join(",") }
}

fn decl_of(spec: &SysSpec) -> String {
    with_sys_type!(spec, |PA, PB, PC, PE, PL| {
        type D<'a> = <GSys<PA, PB, PC, PE, PL> as System<'a>>::SystemData;
        format!("reads={} writes={}", show_ids(&<D as ShredSystemData>::reads()), show_ids(&<D as ShredSystemData>::writes()))
    })
}

fn new_world() -> World {
    HANDLES.lock().unwrap().clear();
    let mut w = World::new();
    w.register::<CA>();
    w.register::<CB>();
    w.register::<CC>();
    w.register::<CZ>();
    for i in 0..6u32 {
        let mut b = w.create_entity();
        if i % 2 == 0 { b = b.with(CA(i)); }
        if i % 3 == 0 { b = b.with(CB(i)); }
        if i % 4 == 0 { b = b.with(CC(i)); }
        b.build();
    }
    w
}

/// Borrow state of resource `R`: n = not borrowed, s = shared, x = exclusive.
fn probe<R: Resource>(w: &World) -> char {
    if !w.has_value::<R>() { return 'n'; }
    let free = catch_unwind(AssertUnwindSafe(|| { let g = w.try_fetch_mut::<R>(); g.is_some() }));
    if let Ok(true) = free { return 'n'; }
    if let Ok(false) = free { return '?'; }
    let sh = catch_unwind(AssertUnwindSafe(|| { let g = w.try_fetch::<R>(); g.is_some() }));
    if sh.is_ok() { 's' } else { 'x' }
}

fn borrow_state(w: &World) -> String {
    let st = [probe::<EntitiesRes>(w), probe::<LazyUpdate>(w), probe::<MaskedStorage<CA>>(w),
              probe::<MaskedStorage<CB>>(w), probe::<MaskedStorage<CC>>(w), probe::<MaskedStorage<CZ>>(w)];
    let v: Vec<String> = st.iter().enumerate().filter(|(_, c)| **c != 'n').map(|(i, c)| format!("{}:{}", i, c)).collect();
    if v.is_empty() { "-".into() } else { v.join(",") }
}

fn decl_line<'a, D: ShredSystemData<'a>>(w: &'a World) -> String {
    let before = borrow_state(w);
    let r = catch_unwind(AssertUnwindSafe(|| {
        let d = D::fetch(w);
        let s = borrow_state(w);
        drop(d);
        s
    }));
    let after = borrow_state(w);
    match r {
        Ok(s) if before == "-" && after == "-" =>
            format!("reads={} writes={} borrows={}", show_ids(&D::reads()), show_ids(&D::writes()), s),
        Ok(s) => format!("reads={} writes={} borrows={} leaked={}/{}", show_ids(&D::reads()), show_ids(&D::writes()), s, before, after),
        Err(_) => "panic".into(),
    }
}

/// One table line: a FRESH world in which only this handle's own `SystemData::setup` has run (what a dispatcher's
/// `setup` does for a system using it), then `fetch` and the borrow probe.
macro_rules! decl_fresh {
    ($D:ty) => {{
        let mut w = World::new();
        let r = catch_unwind(AssertUnwindSafe(|| { <$D as ShredSystemData>::setup(&mut w); }));
        if r.is_err() { "panic".to_string() } else { decl_line::<$D>(&w) }
    }};
}

fn table(out: &mut String) {
    out.push_str(&format!("decl readstorage 0 => {}\n", decl_fresh!(ReadStorage<CA>)));
    out.push_str(&format!("decl readstorage 1 => {}\n", decl_fresh!(ReadStorage<CB>)));
    out.push_str(&format!("decl readstorage 2 => {}\n", decl_fresh!(ReadStorage<CC>)));
    out.push_str(&format!("decl readstorage 3 => {}\n", decl_fresh!(ReadStorage<CZ>)));
    out.push_str(&format!("decl writestorage 0 => {}\n", decl_fresh!(WriteStorage<CA>)));
    out.push_str(&format!("decl writestorage 1 => {}\n", decl_fresh!(WriteStorage<CB>)));
    out.push_str(&format!("decl writestorage 2 => {}\n", decl_fresh!(WriteStorage<CC>)));
    out.push_str(&format!("decl writestorage 3 => {}\n", decl_fresh!(WriteStorage<CZ>)));
    out.push_str(&format!("decl entities => {}\n", decl_fresh!(Entities)));
    out.push_str(&format!("decl readlazy => {}\n", decl_fresh!(Read<LazyUpdate>)));
    out.push_str(&format!("decl registered => {}\n", registered_line()));
}

// ------------------------------------------------------------------ building and running

enum Item { Sys(usize), Barrier }

struct Graph {
    specs: Vec<SysSpec>,
    items: Vec<Item>,
}

fn make_builder<'a>(g: &Graph, sh: &Arc<Shared>) -> DispatcherBuilder<'a, 'a> {
    let mut b = DispatcherBuilder::new();
    for it in &g.items {
        match it {
            Item::Barrier => b.add_barrier(),
            Item::Sys(i) => {
                let spec = &g.specs[*i];
                let deps: Vec<&str> = spec.deps.iter().map(|s| s.as_str()).collect();
                with_sys_type!(spec, |PA, PB, PC, PE, PL| {
                    b.add(
                        GSys::<PA, PB, PC, PE, PL> { idx: *i, modes: spec.modes, rt: spec.rt, sh: sh.clone(), _p: PhantomData },
                        &spec.name,
                        &deps,
                    )
                });
            }
        }
    }
    b
}

fn new_shared(n: usize, spin: u64) -> Arc<Shared> {
    Arc::new(Shared {
        readers: [AtomicI64::new(0), AtomicI64::new(0), AtomicI64::new(0)],
        writers: [AtomicI64::new(0), AtomicI64::new(0), AtomicI64::new(0)],
        overlaps: AtomicU64::new(0),
        clock: AtomicU64::new(0),
        runs: (0..n).map(|_| AtomicU64::new(0)).collect(),
        enter: (0..n).map(|_| AtomicU64::new(0)).collect(),
        exit: (0..n).map(|_| AtomicU64::new(0)).collect(),
        spin,
    })
}

/// `{:?}` of the builder: `seq![ par![ seq![ name, .. ], .. ], .. ]` → `[ ( a b ) ( c ) ] [ .. ]`
fn layout_of(dbg: &str) -> String {
    let mut out: Vec<String> = Vec::new();
    let mut depth = 0;
    for l in dbg.lines() {
        let t = l.trim();
        if t.is_empty() { continue; }
        if t == "seq![" && depth == 0 { depth = 1; }
        else if t == "par![" && depth == 1 { depth = 2; out.push("[".into()); }
        else if t == "seq![" && depth == 2 { depth = 3; out.push("(".into()); }
        else if t == "]," && depth == 3 { depth = 2; out.push(")".into()); }
        else if t == "]," && depth == 2 { depth = 1; out.push("]".into()); }
        else if t == "]" && depth == 1 { depth = 0; }
        else if depth == 3 { out.push(t.trim_end_matches(',').to_string()); }
        else { out.push(format!("?{}", t.replace(' ', "_"))); }
    }
    if out.is_empty() { "empty".into() } else { out.join(" ") }
}

fn pool(threads: usize) -> Arc<rayon::ThreadPool> {
    use std::collections::HashMap;
    use std::sync::Mutex;
    static POOLS: Mutex<Option<HashMap<usize, Arc<rayon::ThreadPool>>>> = Mutex::new(None);
    let mut g = POOLS.lock().unwrap();
    let m = g.get_or_insert_with(HashMap::new);
    m.entry(threads)
        .or_insert_with(|| Arc::new(rayon::ThreadPoolBuilder::new().num_threads(threads).build().unwrap()))
        .clone()
}

fn run_graph(g: &Graph, world: &mut World, threads: usize, reps: usize, spin: u64) -> String {
    let n = g.specs.len();
    let sh = new_shared(n, spin);
    let r = catch_unwind(AssertUnwindSafe(|| {
        let mut d = make_builder(g, &sh).with_pool(pool(threads.max(1))).build();
        d.setup(world);
        let mut depviol = 0u64;
        for _ in 0..reps {
            for i in 0..n { sh.enter[i].store(0, SeqCst); sh.exit[i].store(0, SeqCst); }
            EPOCH.fetch_add(1, SeqCst);
            BIG_LAZY.store(true, SeqCst);
            DISPATCH_SINCE.store(now_ms() + 1, SeqCst);
            d.dispatch(world);
            DISPATCH_SINCE.store(0, SeqCst);
            world.maintain();
            // between frames the application creates entities directly (`World::create_entity` takes recycled indices off
            // the free list that the `maintain` above refilled); the systems of the next dispatch then create through
            // `Entities` with no `maintain` in between
            { let e1 = world.create_entity().build(); let e2 = world.create_entity().build(); let _ = world.entities().delete(e2); let _ = e1; }
            for (i, s) in g.specs.iter().enumerate() {
                for dn in &s.deps {
                    if let Some(j) = g.specs.iter().position(|x| &x.name == dn) {
                        let (e, x) = (sh.enter[i].load(SeqCst), sh.exit[j].load(SeqCst));
                        if e == 0 || x == 0 || x > e { depviol += 1; }
                    }
                }
            }
        }
        depviol
    }));
    match r {
        Ok(depviol) => {
            let runs: Vec<String> = sh.runs.iter().map(|c| c.load(SeqCst).to_string()).collect();
            format!("ok runs={} overlaps={} depviol={}", if runs.is_empty() { "-".into() } else { runs.join(",") },
                    sh.overlaps.load(SeqCst), depviol)
        }
        Err(_) => "panic".into(),
    }
}

/// Executes one case; `rounds` repeats every run line (stress mode) until a report is not clean.
fn run_script(lines: &[Line], rounds: usize, spin: u64, out: &mut String) {
    let mut g = Graph { specs: Vec::new(), items: Vec::new() };
    let mut world = new_world();
    for l in lines {
        match l {
            Line::Table => { out.push_str("table => ok\n"); table(out); }
            Line::Sys(s) => {
                // normalise: dependencies must name earlier systems (DispatcherBuilder::add panics otherwise);
                // duplicate names are made unique
                let mut s = s.clone();
                s.deps.retain(|d| g.specs.iter().any(|x| &x.name == d));
                if s.name.is_empty() || g.specs.iter().any(|x| x.name == s.name) { s.name = format!("{}_{}", s.name, g.specs.len()); }
                let decl = catch_unwind(AssertUnwindSafe(|| decl_of(&s))).unwrap_or_else(|_| "panic".into());
                out.push_str(&format!("{} => {}\n", show_line(&Line::Sys(s.clone())), decl));
                g.items.push(Item::Sys(g.specs.len()));
                g.specs.push(s);
            }
            Line::Barrier => { g.items.push(Item::Barrier); out.push_str("barrier => ok\n"); }
            Line::Build => {
                let sh = new_shared(g.specs.len(), 0);
                let r = catch_unwind(AssertUnwindSafe(|| {
                    let b = make_builder(&g, &sh);
                    layout_of(&format!("{:?}", b))
                }));
                out.push_str(&format!("build => {}\n", r.unwrap_or_else(|_| "panic".into())));
            }
            Line::Run(t, n) => {
                let mut res = String::new();
                for _ in 0..rounds.max(1) {
                    res = run_graph(&g, &mut world, *t, *n, spin);
                    let clean = res.starts_with("ok") && res.contains("overlaps=0 depviol=0")
                        && res.split_whitespace().nth(1).map(|r| r.trim_start_matches("runs=").split(',').all(|c| c == n.to_string() || c == "-")).unwrap_or(false);
                    if !clean { break; }
                    if res == "panic" { break; }
                }
                if res == "panic" { world = new_world(); }
                out.push_str(&format!("run {} {} => {}\n", t, n, res));
            }
        }
    }
}

fn gen_graph(rng: &mut Rng, maxsys: usize) -> Vec<Line> {
    let n = rng.range(2, maxsys.max(2) as u64) as usize;
    // per-case densities
    let p_access = rng.range(15, 90);      // % that a component is accessed at all
    let p_write = rng.range(10, 70);       // % of accesses that are writes
    let p_dep = rng.range(0, 60);          // % of systems that have dependencies
    let p_barrier = if rng.chance(1, 3) { rng.range(3, 25) } else { 0 };
    let p_rt = rng.range(0, 100);          // % of systems with a non-default running time
    let mut lines = Vec::new();
    let mut names: Vec<String> = Vec::new();
    for i in 0..n {
        if i > 0 && rng.below(100) < p_barrier { lines.push(Line::Barrier); }
        let mut modes = [0u8; 3];
        for c in 0..3 {
            if rng.below(100) < p_access { modes[c] = if rng.below(100) < p_write { 2 } else { 1 }; }
        }
        let mut deps = Vec::new();
        if !names.is_empty() && rng.below(100) < p_dep {
            let k = rng.weighted(&[60, 25, 10, 5]) + 1;
            for _ in 0..k {
                // bias to recent systems; duplicates are allowed (rarely produced)
                let j = if rng.chance(2, 3) { names.len() - 1 - rng.below(names.len().min(4) as u64) as usize } else { rng.below(names.len() as u64) as usize };
                if !deps.contains(&names[j]) || rng.chance(1, 20) { deps.push(names[j].clone()); }
            }
        }
        let name = format!("s{}", i);
        names.push(name.clone());
        lines.push(Line::Sys(SysSpec {
            name,
            modes,
            ent: rng.chance(1, 3),
            lazy: rng.chance(1, 5),
            rt: if rng.below(100) < p_rt { rng.range(1, 5) as u8 } else { 3 },
            deps,
        }));
    }
    lines.push(Line::Build);
    lines
}

fn flush(out: &mut String) {
    let so = std::io::stdout();
    let mut l = so.lock();
    l.write_all(out.as_bytes()).unwrap();
    out.clear();
}

fn read_cases(path: &str) -> Vec<(String, Vec<Line>)> {
    let text = std::fs::read_to_string(path).unwrap();
    let mut cases: Vec<(String, Vec<Line>)> = Vec::new();
    for line in text.lines() {
        let line = line.trim();
        if line.is_empty() || line.starts_with('#') || line.starts_with("domain") { continue; }
        if let Some(id) = line.strip_prefix("case ") {
            cases.push((id.trim().to_string(), Vec::new()));
        } else if line.starts_with("decl ") {
            continue; // produced by `table`
        } else {
            let l = parse_line(line).unwrap_or_else(|| { eprintln!("bad line: {}", line); std::process::exit(3) });
            if cases.is_empty() { cases.push(("anon".into(), Vec::new())); }
            cases.last_mut().unwrap().1.push(l);
        }
    }
    cases
}

fn now_ms() -> u64 {
    static T0: std::sync::OnceLock<std::time::Instant> = std::sync::OnceLock::new();
    T0.get_or_init(std::time::Instant::now).elapsed().as_millis() as u64
}

fn main() {
    std::panic::set_hook(Box::new(|_| {}));
    let _ = now_ms();
    let limit: u64 = std::env::var("H_DISPATCH_LIMIT_MS").ok().and_then(|s| s.parse().ok()).unwrap_or(60_000);
    std::thread::spawn(move || loop {
        std::thread::sleep(std::time::Duration::from_millis(500));
        let since = DISPATCH_SINCE.load(SeqCst);
        if since != 0 && now_ms() + 1 > since + limit {
            eprintln!("h_dispatch: a dispatch did not return within {} ms (a system never finished: every system must run exactly once)", limit);
            std::process::exit(3);
        }
    });
    let args: Vec<String> = std::env::args().collect();
    let mut out = String::new();
    out.push_str("domain dispatch\n");
    let spin: u64 = std::env::var("H_DISPATCH_SPIN").ok().and_then(|s| s.parse().ok()).unwrap_or(60);
    // The process-wide rayon pool (what `rayon::current_num_threads()` answers outside any pool, e.g. while a `World` is
    // built) is independent of the pools the dispatchers run on; H_GLOBAL_POOL=<n> makes it smaller than those.
    if let Some(n) = std::env::var("H_GLOBAL_POOL").ok().and_then(|s| s.parse::<usize>().ok()) {
        rayon::ThreadPoolBuilder::new().num_threads(n.max(1)).build_global().expect("global pool");
        out.push_str(&format!("# env H_GLOBAL_POOL={}\n", n.max(1)));
    }
    match args.get(1).map(|s| s.as_str()) {
        Some("gen") => {
            let seed: u64 = args[2].parse().unwrap();
            let cases: usize = args[3].parse().unwrap();
            let maxsys: usize = args[4].parse().unwrap();
            let runs_every: usize = args.get(5).map(|s| s.parse().unwrap()).unwrap_or(1);
            out.push_str("case table\n");
            run_script(&[Line::Table], 1, spin, &mut out);
            let mut master = Rng::new(seed);
            for c in 0..cases {
                let sub = master.next();
                let mut rng = Rng::new(sub);
                let mut lines = gen_graph(&mut rng, maxsys);
                if runs_every > 0 && c % runs_every == 0 {
                    let sizes = [1usize, 2, 3, 4, 8, 16];
                    lines.push(Line::Run(1, 1));
                    for _ in 0..2 {
                        let t = sizes[1 + rng.below(5) as usize];
                        lines.push(Line::Run(t, rng.range(1, 3) as usize));
                    }
                }
                out.push_str(&format!("case g{}-{}\n", c, sub));
                run_script(&lines, 1, spin, &mut out);
                if out.len() > 1 << 16 { flush(&mut out); }
            }
        }
        Some("run") | Some("stress") => {
            let rounds = if args[1] == "stress" { args[3].parse().unwrap() } else { 1 };
            for (id, lines) in read_cases(&args[2]) {
                out.push_str(&format!("case {}\n", id));
                run_script(&lines, rounds, spin, &mut out);
                if out.len() > 1 << 16 { flush(&mut out); }
            }
        }
        _ => {
            eprintln!("usage: h_dispatch gen <seed> <cases> <maxsys> [<runs_every>] | run <file> | stress <file> <rounds>");
            std::process::exit(2);
        }
    }
    flush(&mut out);
}
