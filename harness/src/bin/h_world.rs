//! h_world: produce world-domain transcripts from the real implementation.
//!   h_world gen <seed> <cases> <maxlen>      random histories (probing after each mutating op)
//!   h_world exh <len> [<shard> <nshards>]    every sequence of exactly <len> alphabet ops
//!   h_world run <file>                       execute the scripts in <file> (`case id` + op lines)
use std::io::Write;
use vh::rng::Rng;
use vh::world_dom::*;

fn flush(out: &mut String) {
    let so = std::io::stdout();
    let mut l = so.lock();
    l.write_all(out.as_bytes()).unwrap();
    out.clear();
}

fn main() {
    std::panic::set_hook(Box::new(|_| {})); // panics are results, not noise
    let args: Vec<String> = std::env::args().collect();
    let mut out = String::new();
    out.push_str("domain world\n");
    match args.get(1).map(|s| s.as_str()) {
        Some("gen") => {
            let seed: u64 = args[2].parse().unwrap();
            let cases: usize = args[3].parse().unwrap();
            let maxlen: usize = args[4].parse().unwrap();
            let mut master = Rng::new(seed);
            for c in 0..cases {
                let sub = master.next();
                let mut rng = Rng::new(sub);
                let len = rng.range(3, maxlen as u64) as usize;
                let ops = gen_script(&mut rng, len);
                out.push_str(&format!("case g{}-{}\n", c, sub));
                run_script(&ops, true, &mut rng, &mut out);
                if out.len() > 1 << 16 { flush(&mut out); }
            }
        }
        Some("exh") => {
            let len: usize = args[2].parse().unwrap();
            let shard: usize = args.get(3).map(|s| s.parse().unwrap()).unwrap_or(0);
            let nshards: usize = args.get(4).map(|s| s.parse().unwrap()).unwrap_or(1);
            let alpha = exhaustive_alphabet();
            let k = alpha.len();
            let total = k.pow(len as u32);
            let mut rng = Rng::new(0);
            for idx in 0..total {
                if idx % nshards != shard { continue; }
                let mut x = idx;
                let mut ops = Vec::with_capacity(len);
                for _ in 0..len { ops.push(alpha[x % k].clone()); x /= k; }
                out.push_str(&format!("case x{}-{}\n", len, idx));
                run_script(&ops, true, &mut rng, &mut out);
                if out.len() > 1 << 16 { flush(&mut out); }
            }
        }
        Some("run") => {
            let text = std::fs::read_to_string(&args[2]).unwrap();
            let mut cur: Option<(String, Vec<Op>)> = None;
            let mut rng = Rng::new(0);
            let mut fin = |cur: &mut Option<(String, Vec<Op>)>, out: &mut String| {
                if let Some((id, ops)) = cur.take() {
                    out.push_str(&format!("case {}\n", id));
                    run_script(&ops, false, &mut rng, out);
                }
            };
            for line in text.lines() {
                let line = line.trim();
                if line.is_empty() || line.starts_with('#') || line.starts_with("domain") { continue; }
                if let Some(id) = line.strip_prefix("case ") {
                    fin(&mut cur, &mut out);
                    cur = Some((id.trim().to_string(), Vec::new()));
                } else {
                    let op = parse_op(line).unwrap_or_else(|| panic!("bad op line: {}", line));
                    if cur.is_none() { cur = Some(("anon".into(), Vec::new())); }
                    cur.as_mut().unwrap().1.push(op);
                }
            }
            fin(&mut cur, &mut out);
        }
        Some("cont") | Some("contgen") => {
            // continuations of a base script: all alphabet sequences of length <= depth, or random ones
            let text = std::fs::read_to_string(&args[2]).unwrap();
            let base: Vec<Op> = text.lines().map(|l| l.trim())
                .filter(|l| !l.is_empty() && !l.starts_with('#') && !l.starts_with("case ") && !l.starts_with("domain"))
                .map(|l| parse_op(l).unwrap_or_else(|| panic!("bad op line: {}", l))).collect();
            let mut rng = Rng::new(1);
            if args[1] == "cont" {
                let depth: usize = args[3].parse().unwrap();
                let alpha = exhaustive_alphabet();
                let k = alpha.len();
                for len in 0..=depth {
                    for idx in 0..k.pow(len as u32) {
                        let mut x = idx;
                        let mut ops = base.clone();
                        for _ in 0..len { ops.push(alpha[x % k].clone()); x /= k; }
                        out.push_str(&format!("case c{}-{}\n", len, idx));
                        run_script(&ops, true, &mut rng, &mut out);
                        if out.len() > 1 << 16 { flush(&mut out); }
                    }
                }
            } else {
                let seed: u64 = args[3].parse().unwrap();
                let n: usize = args[4].parse().unwrap();
                let len: usize = args[5].parse().unwrap();
                let mut master = Rng::new(seed);
                for c in 0..n {
                    let mut r = Rng::new(master.next());
                    let l = r.range(1, len as u64) as usize;
                    let mut ops = base.clone();
                    ops.extend(gen_script(&mut r, l));
                    out.push_str(&format!("case r{}\n", c));
                    run_script(&ops, true, &mut r, &mut out);
                    if out.len() > 1 << 16 { flush(&mut out); }
                }
            }
        }
        _ => {
            eprintln!("usage: h_world gen|exh|run ...");
            std::process::exit(2);
        }
    }
    flush(&mut out);
}
