//! h_world: produce world-domain transcripts from the real implementation.
//!   h_world gen <seed> <cases> <maxlen>               random entity histories (probing after each mutating op)
//!   h_world exh <len> [<shard> <nshards>]             every sequence of exactly <len> entity-alphabet ops
//!   h_world sgen <seed> <cases> <maxlen> <focus>      random storage/lazy histories; focus = any|tracked|lazy|rjoin|far|ledger|many
//!   h_world sexh <kind> <len> [<shard> <nshards>]     every sequence of <len> store-alphabet ops on one kind
//!   h_world run <file>                                execute the scripts in <file> (`case id` + op lines)
//!   h_world cont <file> <depth> | contgen <file> <seed> <n> <len>   continuations of a base script
//! Env: VH_LEDGER=1 prints the values destroyed by each op; VH_PROBE=0 disables probes.
use std::io::Write;
use vh::rng::Rng;
use vh::world_dom::*;

fn flush(out: &mut String) {
    let so = std::io::stdout();
    let mut l = so.lock();
    l.write_all(out.as_bytes()).unwrap();
    out.clear();
}

fn read_scripts(path: &str) -> Vec<(String, Vec<Op>)> {
    let text = std::fs::read_to_string(path).unwrap();
    let mut res: Vec<(String, Vec<Op>)> = Vec::new();
    for line in text.lines() {
        let line = line.trim();
        if line.is_empty() || line.starts_with('#') || line.starts_with("domain") || line.starts_with("in ") { continue; }
        if let Some(id) = line.strip_prefix("case ") {
            res.push((id.trim().to_string(), Vec::new()));
        } else {
            let op = parse_op(line).unwrap_or_else(|| panic!("bad op line: {}", line));
            if res.is_empty() { res.push(("anon".into(), Vec::new())); }
            res.last_mut().unwrap().1.push(op);
        }
    }
    res
}

fn main() {
    std::panic::set_hook(Box::new(|_| {})); // panics are results, not noise
    let args: Vec<String> = std::env::args().collect();
    let ledger = std::env::var("VH_LEDGER").map(|v| v == "1").unwrap_or(false);
    let probe = std::env::var("VH_PROBE").map(|v| v != "0").unwrap_or(true);
    let ecfg = RunCfg { probe_entities: probe, probe_stores: false, ledger };
    let scfg = RunCfg { probe_entities: probe, probe_stores: probe, ledger };
    let rcfg = RunCfg { probe_entities: false, probe_stores: false, ledger };
    let mut out = String::new();
    out.push_str("domain world\n");
    // C20: shift the heap layout and iterate cases in reverse order on request
    if let Ok(n) = std::env::var("VH_PREALLOC") {
        let n: usize = n.parse().unwrap_or(0);
        let junk: Vec<Vec<u8>> = (0..(n % 97 + 1)).map(|i| vec![i as u8; (n * 31 + i * 4099) % 1_000_003 + 1]).collect();
        std::mem::forget(junk);
    }
    let reverse = std::env::var("VH_REVERSE").map(|v| v == "1").unwrap_or(false);
    match args.get(1).map(|s| s.as_str()) {
        Some("gen") => {
            let seed: u64 = args[2].parse().unwrap();
            let cases: usize = args[3].parse().unwrap();
            let maxlen: usize = args[4].parse().unwrap();
            let mut master = Rng::new(seed);
            let mut subs: Vec<(usize, u64)> = (0..cases).map(|c| (c, master.next())).collect();
            if reverse { subs.reverse(); }
            for (c, sub) in subs {
                let mut rng = Rng::new(sub);
                let len = rng.range(3, maxlen as u64) as usize;
                let ops = gen_script(&mut rng, len);
                out.push_str(&format!("case g{}-{}\n", c, sub));
                run_script(&ops, ecfg, &mut rng, &mut out);
                if out.len() > 1 << 16 { flush(&mut out); }
            }
        }
        Some("sgen") => {
            let seed: u64 = args[2].parse().unwrap();
            let cases: usize = args[3].parse().unwrap();
            let maxlen: usize = args[4].parse().unwrap();
            let focus = args.get(5).map(|s| s.as_str()).unwrap_or("any");
            let mut master = Rng::new(seed ^ 0x5eed);
            let mut subs: Vec<(usize, u64)> = (0..cases).map(|c| (c, master.next())).collect();
            if reverse { subs.reverse(); }
            for (c, sub) in subs {
                let mut rng = Rng::new(sub);
                let len = rng.range(3, maxlen as u64) as usize;
                let p = random_profile(&mut rng, focus);
                let ops = gen_store_script(&mut rng, len, &p);
                out.push_str(&format!("case s{}-{}\n", c, sub));
                let cfg = if p.far_apart { RunCfg { probe_entities: false, ..scfg } } else { scfg };
                run_script(&ops, cfg, &mut rng, &mut out);
                if out.len() > 1 << 16 { flush(&mut out); }
            }
        }
        Some("exh") | Some("sexh") => {
            let store = args[1] == "sexh";
            let (alpha, a0) = if store {
                let k: usize = args[2].parse().unwrap();
                (store_alphabet(k), 3)
            } else { (exhaustive_alphabet(), 2) };
            let kind: usize = if store { args[2].parse().unwrap() } else { 0 };
            let len: usize = args[a0].parse().unwrap();
            let shard: usize = args.get(a0 + 1).map(|s| s.parse().unwrap()).unwrap_or(0);
            let nshards: usize = args.get(a0 + 2).map(|s| s.parse().unwrap()).unwrap_or(1);
            let k = alpha.len();
            let total = k.pow(len as u32);
            let mut rng = Rng::new(0);
            for idx in 0..total {
                if idx % nshards != shard { continue; }
                let mut x = idx;
                let mut ops = Vec::with_capacity(len + 1);
                if store { ops.push(Op::Reg(kind, 0)); }
                for _ in 0..len { ops.push(alpha[x % k].clone()); x /= k; }
                out.push_str(&format!("case {}{}-{}-{}\n", if store { "y" } else { "x" }, kind, len, idx));
                run_script(&ops, if store { scfg } else { ecfg }, &mut rng, &mut out);
                if out.len() > 1 << 16 { flush(&mut out); }
            }
        }
        Some("run") => {
            let mut rng = Rng::new(0);
            for (id, ops) in read_scripts(&args[2]) {
                out.push_str(&format!("case {}\n", id));
                run_script(&ops, rcfg, &mut rng, &mut out);
            }
        }
        Some("cont") | Some("contgen") => {
            let base: Vec<Op> = read_scripts(&args[2]).into_iter().flat_map(|(_, ops)| ops).collect();
            let has_store = base.iter().any(|o| matches!(o, Op::Reg(..)));
            let kinds: Vec<usize> = base.iter().filter_map(|o| if let Op::Reg(k, _) = o { Some(*k) } else { None }).collect();
            let mut rng = Rng::new(1);
            let cfg = if has_store { scfg } else { ecfg };
            if args[1] == "cont" {
                let depth: usize = args[3].parse().unwrap();
                let alpha = if has_store { store_alphabet(kinds[0]) } else { exhaustive_alphabet() };
                let k = alpha.len();
                for len in 0..=depth {
                    for idx in 0..k.pow(len as u32) {
                        let mut x = idx;
                        let mut ops = base.clone();
                        for _ in 0..len { ops.push(alpha[x % k].clone()); x /= k; }
                        out.push_str(&format!("case c{}-{}\n", len, idx));
                        run_script(&ops, cfg, &mut rng, &mut out);
                        if out.len() > 1 << 16 { flush(&mut out); }
                    }
                }
            } else {
                let seed: u64 = args[3].parse().unwrap();
                let n: usize = args[4].parse().unwrap();
                let len: usize = args[5].parse().unwrap();
                let mut master = Rng::new(seed);
                for c in 0..n {
                    let mut r = Rng::new(master.next());
                    let l = r.range(1, len as u64) as usize;
                    let mut ops = base.clone();
                    if has_store {
                        let mut p = random_profile(&mut r, "any");
                        p.kinds = kinds.clone();
                        p.far_apart = false;
                        let ext: Vec<Op> = gen_store_script(&mut r, l, &p).into_iter().filter(|o| !matches!(o, Op::Reg(..))).collect();
                        ops.extend(ext);
                    } else {
                        ops.extend(gen_script(&mut r, l));
                    }
                    out.push_str(&format!("case r{}\n", c));
                    run_script(&ops, cfg, &mut r, &mut out);
                    if out.len() > 1 << 16 { flush(&mut out); }
                }
            }
        }
        _ => {
            eprintln!("usage: h_world gen|exh|sgen|sexh|run|cont|contgen ...");
            std::process::exit(2);
        }
    }
    flush(&mut out);
}
