//! h_join_h3: same body as h_join, plus `tree` ops through hook H3 (`JoinParIter::verif_drive`,
//! needs `--cfg specs_verif` and the patched par_join.rs).
macro_rules! if_h3 { ($($t:tt)*) => { $($t)* } }
include!("../h_join/body.rs");
