//! h_saveload: produce saveload-domain transcripts from the real implementation (PROTOCOL.md).
//!   h_saveload run <file>                              execute the scripts in <file> (`case id` + op lines)
//!   h_saveload gen <seed> <cases> <maxlen> [rt|hist|mix]   seeded random cases
//! Env: VH_TEXT=1 prints the serialised text of every serialize/load/roundtrip as `# text ...` comment lines.
//!
//! Additions to the protocol below: a re-parse failure of produced text is reported as `fail`; an op that does not
//! return within VH_OP_TIMEOUT_MS (default 3000) is reported as `<op> => hang` by a watchdog thread, which prints the
//! current case up to that op and ends the run; VH_PANIC_MSG=1 keeps the default panic hook (messages on stderr).
//!
//! ---------------------------------------------------------------------------------------------------------------
//! # Line protocol of domain `saveload` (harness `h_saveload` -> Lean driver)
//!
//! Output: first line `domain saveload`; then per case `case <id>` followed by lines `op tokens => result tokens`.
//! Tokens are separated by single spaces. Entities print as `i:g` (`e.id()`, `e.gen().id()`).
//! `#` lines are comments. A panic inside an op (caught with `catch_unwind(AssertUnwindSafe(..))`) gives result `panic`.
//!
//! ## State per case
//! * Config: marker kind `simple` (`SimpleMarker<Tag>` + `SimpleMarkerAllocator<Tag>`) or `uuid` (`UuidMarker` + `UuidMarkerAllocator`);
//!   (`uuidapp`: as `uuid`, but world A's markers get application-chosen ids `Uuid::from_u128(0), (1), ..` registered with `allocate(e, Some(id))`)
//!   data format `json` (serde_json) or `ron` (ron 0.8). Default `simple json`. Set by an op line `cfg <simple|uuid> <json|ron>` (result `ok`);
//!   `cfg` resets both worlds, logs, data slots, uuid name table (so it is normally the first op of a case).
//! * Two worlds `A`, `B` (`specs::World`, `WorldExt::new()`), each with components `P`, `R`, `E` and the marker type registered
//!   and the marker allocator inserted as a resource. Each world has its own log `Vec<Entity>` of handles. A slot `@k` means
//!   `log[k % log.len()]` of that world; if the log is empty the op's result is `skip` and nothing happens.
//! * Data slots: `Vec<String>` (serialised text), shared by both worlds. `#k` means `slots[k % slots.len()]`; no slots => `skip`.
//! * uuid name table `Vec<Uuid>` per case: a uuid is printed as its position in the table; an unknown uuid is appended when it is
//!   first printed or first returned by `mark` (register immediately after the `mark`, and while printing, strictly in print order left to right).
//!
//! ## Components (in the harness crate)
//! ```rust
//! #[derive(Clone, Debug, PartialEq, Serialize, Deserialize)] pub struct P(pub i32);          // VecStorage, blanket ConvertSaveload
//! #[derive(Clone, Debug, PartialEq, ConvertSaveload)] pub struct R { pub a: Entity, pub b: Entity }   // DenseVecStorage
//! #[derive(Clone, Debug, PartialEq, ConvertSaveload)] pub enum E { Nil, One(Entity), Val(i32) }        // VecStorage
//! ```
//! Serialisation uses `SerializeComponents::<Infallible, M>::serialize(&(&p, &r, &e), &entities, &markers, &mut ser)` and
//! `serialize_recursive(&(&p,&r,&e), &entities, &mut markers, &mut alloc, &mut ser)`; deserialisation
//! `DeserializeComponents::<Err, M>::deserialize(&mut (p, r, e), &entities, &mut markers, &mut alloc, &mut de)` with storages fetched
//! from the world as in /repo/examples/saveload.rs and /repo/src/saveload/tests.rs (inside `world.exec(..)` or via `world.system_data()`).
//!
//! ## Ops (W is `A` or `B`)
//! | op | real call | result |
//! |---|---|---|
//! | `cfg <simple/uuid> <json/ron>` | reset | `ok` |
//! | `create W now` | `world.create_entity().build()`; push to log | `e i:g` |
//! | `create W atomic` | `world.entities().create()`; push to log | `e i:g` |
//! | `setp W @k <int>` | `world.write_storage::<P>().insert(e, P(v))` | `ok` / `err` (Err) / `skip` |
//! | `setp W @k -` | `write_storage::<P>().remove(e)` | `ok` / `skip` |
//! | `setr W @k @a @b` | insert `R{a: log[a], b: log[b]}` | `ok` / `err` / `skip` |
//! | `setr W @k -` | remove | `ok` / `skip` |
//! | `sete W @k nil` / `sete W @k one @a` / `sete W @k val <int>` | insert `E::..` | `ok` / `err` / `skip` |
//! | `sete W @k -` | remove | `ok` / `skip` |
//! | `mark W @k` | `alloc.mark(e, &mut markers)` (allocator resource + `WriteStorage<M>`) | `m <id> new` / `m <id> old` / `none` / `skip` |
//! | `mark_lazy W @k` | `LazyBuilder { entity, lazy }.marked::<M>()` (queued; applied inside the next `maintain W`, after its entity merge) | `ok` / `skip` |
//! | `del_now W @k` | `world.delete_entity(e)` | `ok` / `err` / `skip` |
//! | `del_batch W @k ...` | `world.delete_entities(&[..])` (zero or more slots) | `ok` / `err <pos>` / `skip` |
//! | `del_atomic W @k` | `world.entities().delete(e)` | `ok` / `err` / `skip` |
//! | `maintain W` | `world.maintain()` | `ok` |
//! | `alloc_maintain W` | `alloc.maintain(&entities, &markers)` (ReadStorage) | `ok` |
//! | `serialize W` | `serialize` into the case format; on success push the text as a new data slot | `recs <n> \| <rec> \| <rec> ...` / `panic` / `fail` (serializer returned Err) |
//! | `serialize_rec W` | `serialize_recursive`, same | same |
//! | `deserialize W #k` | deserialize slot text into W | `ok new <i:g>*` / `skip` / `panic` / `fail` |
//! | `load W <rec> \| <rec> ...` | literal records (possibly none: `load W`), formatted by the harness into the case format, then deserialised into W. `simple` only; in `uuid` mode result `skip` | `ok new <i:g>*` / `panic` / `fail` |
//! | `roundtrip W plain` / `roundtrip W rec` | serialise W (plain or recursive) to text (not pushed as a slot), create a FRESH world (same registrations, fresh allocator), deserialise the text into it | `rt recs <n> \| <rec> ... \|\| <dump of W after the op, exactly the result tokens of `dump W`> \|\| <dump of the fresh world>` / `panic` / `fail` |
//! | `dump W` | see below | see below |
//!
//! In `uuid` mode the ops `mark B`, `serialize_rec B`, `roundtrip B rec` and `load ..` give `skip` without doing anything
//! (only world A may create new uuids, so that uuid names coincide with the ids a SimpleMarkerAllocator would hand out).
//!
//! `new <i:g>*` after a load: the entities of `(&entities).join()` after the load that were not in that join before it, ascending index;
//! they are appended to W's log in that order.
//!
//! ### Records
//! Canonical text of one `EntityData`: `m=<id> p=<int|-> r=<ma>,<mb>|- e=<nil|one:<m>|val:<int>|->` (4 tokens), e.g.
//! `m=0 p=7 r=0,1 e=-`. Records are separated by the token `|`. `recs 0` when there are none.
//! They are obtained by re-parsing the produced text with serde only (typed:
//! `Vec<EntityData<M, (Option<P>, Option<RSaveloadData<M>>, Option<ESaveloadData<M>>)>>` via `serde_json::from_str` / `ron::from_str`,
//! or via `serde_json::Value`), in data order. Marker ids: `marker.id()` (u64) for simple, table position for uuid.
//!
//! Literal records of `load` are turned into JSON text by hand
//! (`[{"marker":[7],"components":[5,{"a":[1],"b":[0]},{"One":[3]}]}, ...]`, `null` for absent, `"Nil"`, `{"Val":3}`); for `ron` parse that JSON
//! with the typed serde structs and re-serialise with `ron::to_string`.
//!
//! ### Dump
//! `dump W => idx <n|-> map <entries|-> ents <n> | <ent> | <ent> ... masks m:<list> p:<list> r:<list> e:<list>`
//! * `idx`: `SimpleMarkerAllocator.index` and `map`: its mapping as one token `id=i:g,id=i:g` sorted by id (`-` when empty), both parsed out of
//!   the allocator's `Debug` output (`format!("{:?}", *alloc)`); for uuid `idx -` and `map` from the Debug output too if easy, else `map -`.
//! * `ents`: every entity of `(&entities).join()` in order, each as 5 tokens `<i:g> m=<id|-> p=<int|-> r=<i:g>,<i:g>|- e=<nil|one:<i:g>|val:<int>|->`
//!   using `Storage::get(entity)` on each storage; separated by `|`; `ents 0` when none.
//! * `masks`: indices of `storage.mask()` (BitSetLike iter) for marker, P, R, E storages, comma separated, e.g. `m:0,2 p: r:0 e:`.
//!
//! ## Modes
//! * `h_saveload run <file>`: file has `case <id>` lines and op lines (anything after ` => ` ignored; `#`, empty and `domain` lines skipped);
//!   executes exactly those lines. Unparsable op line -> panic with message.
//! * `h_saveload gen <seed> <cases> <maxlen> [rt|hist|mix]`: seeded random (`vh::rng::Rng`), case ids `g<c>-<subseed>`. Two kinds of cases (mix: ~40% rt):
//!   * rt: `cfg` random; world A gets 1..8 entities (`create` now/atomic mixed; sometimes delete+maintain+create to reuse indices), random
//!     components: P values small ints; R/E references chosen mostly (85%) among the entities that will be marked, with deliberate self loops,
//!     2-cycles/longer cycles and forward references (to a later created entity; this needs `setr`/`sete` after all creations); a random subset marked (sometimes all, sometimes none);
//!     then `dump A`, `roundtrip A plain`, `dump A`, `roundtrip A rec`, `dump A`, `serialize A`, `deserialize B #0`, `dump B`, sometimes `serialize_rec A`, `deserialize B #1`, `dump B`.
//!   * hist: `cfg simple <fmt>` (occasionally uuid), then up to maxlen random ops on A and B from all of the above (weights favour create/mark/set/delete/maintain/serialize/deserialize;
//!     `load` with ids sometimes above the counter, dangling references, duplicate markers; repeated `deserialize` of the same slot; delete of loaded entities then reload; `alloc_maintain` rarely),
//!     each mutating op followed by `dump <that world>`.

use serde::{Deserialize, Serialize};
use specs::prelude::*;
use specs::saveload::{
    ConvertSaveload, DeserializeComponents, EntityData, Marker, MarkerAllocator, SerializeComponents,
    SimpleMarker, SimpleMarkerAllocator, UuidMarker, UuidMarkerAllocator,
};
use specs::ConvertSaveload;
use std::cell::Cell;
use std::collections::VecDeque;
use std::convert::Infallible;
use std::fmt::{self, Write as _};
use std::io::Write as _;
use std::marker::PhantomData;
use std::panic::{catch_unwind, AssertUnwindSafe};
use vh::rng::Rng;

// ------------------------------------------------------------------------------------------
// Components

#[derive(Clone, Debug, PartialEq, Serialize, Deserialize)]
pub struct P(pub i32);
impl Component for P {
    type Storage = VecStorage<Self>;
}

#[derive(Clone, Debug, PartialEq)]
pub struct R {
    pub a: Entity,
    pub b: Entity,
}
/// `R` converts with a HAND-WRITTEN, FALLIBLE `ConvertSaveload` (the derive — exercised by `E` here and by C18's harness —
/// can only panic on an entity without marker): a reference to an unmarked entity is an `Err`, which the plain `serialize`
/// must hand on as a failure of the whole save (the transcript shows it as `panic`, like the derive's outcome).
#[derive(Serialize, Deserialize, Clone, Debug)]
#[serde(bound = "MA: Marker")]
pub struct RSaveloadData<MA: Marker> {
    pub a: MA,
    pub b: MA,
}
#[derive(Debug)]
pub struct NoMarker;
impl fmt::Display for NoMarker {
    fn fmt(&self, f: &mut fmt::Formatter) -> fmt::Result { write!(f, "verif-no-marker") }
}
impl<M: Marker> ConvertSaveload<M> for R {
    type Data = RSaveloadData<M>;
    type Error = NoMarker;
    fn convert_into<F: FnMut(Entity) -> Option<M>>(&self, mut ids: F) -> Result<Self::Data, NoMarker> {
        Ok(RSaveloadData { a: ids(self.a).ok_or(NoMarker)?, b: ids(self.b).ok_or(NoMarker)? })
    }
    fn convert_from<F: FnMut(M) -> Option<Entity>>(data: Self::Data, mut ids: F) -> Result<Self, NoMarker> {
        Ok(R { a: ids(data.a).ok_or(NoMarker)?, b: ids(data.b).ok_or(NoMarker)? })
    }
}
/// Error type of component conversion during serialisation.
#[derive(Debug)]
pub enum SerErr { NoMarker }
impl fmt::Display for SerErr {
    fn fmt(&self, f: &mut fmt::Formatter) -> fmt::Result { write!(f, "verif-no-marker") }
}
impl From<Infallible> for SerErr { fn from(e: Infallible) -> Self { match e {} } }
impl From<NoMarker> for SerErr { fn from(_: NoMarker) -> Self { SerErr::NoMarker } }
impl Component for R {
    type Storage = DenseVecStorage<Self>;
}

#[derive(Clone, Debug, PartialEq, ConvertSaveload)]
pub enum E {
    Nil,
    One(Entity),
    Val(i32),
}
impl Component for E {
    type Storage = VecStorage<Self>;
}

pub struct Tag;
type SM = SimpleMarker<Tag>;

type Comps<M> = (Option<P>, Option<RSaveloadData<M>>, Option<ESaveloadData<M>>);
type Recs<M> = Vec<EntityData<M, Comps<M>>>;

/// Error type of component conversion during deserialisation (never constructed: the loader's id mapping always answers).
#[derive(Debug)]
enum DeErr { NoMarker }
impl fmt::Display for DeErr {
    fn fmt(&self, f: &mut fmt::Formatter) -> fmt::Result { write!(f, "verif-no-marker") }
}
impl From<NoMarker> for DeErr { fn from(_: NoMarker) -> Self { DeErr::NoMarker } }
impl From<Infallible> for DeErr {
    fn from(e: Infallible) -> Self {
        match e {}
    }
}

thread_local! {
    static HARNESS_BUG: Cell<bool> = Cell::new(false);
}

// Watchdog: an op of the code under test that does not return within VH_OP_TIMEOUT_MS (default 3000) is
// reported as `<op> => hang`: the watchdog thread prints the current case up to that op and exits.
static WD_BUSY: std::sync::Mutex<Option<(std::time::Instant, String)>> = std::sync::Mutex::new(None);
static WD_CASE: std::sync::Mutex<String> = std::sync::Mutex::new(String::new());

fn wd_case(id: &str) {
    *WD_CASE.lock().unwrap() = format!("case {}\n", id);
}

fn wd_start() {
    let limit = std::env::var("VH_OP_TIMEOUT_MS").ok().and_then(|v| v.parse::<u64>().ok()).unwrap_or(3000);
    std::thread::spawn(move || loop {
        std::thread::sleep(std::time::Duration::from_millis(50));
        let busy = WD_BUSY.lock().unwrap();
        if let Some((t, op)) = &*busy {
            if t.elapsed().as_millis() as u64 > limit {
                let cur = WD_CASE.lock().unwrap();
                let so = std::io::stdout();
                let mut l = so.lock();
                let _ = l.write_all(format!("{}{} => hang\n", *cur, op).as_bytes());
                let _ = l.flush();
                std::process::exit(0);
            }
        }
    });
}
/// A failure of the harness itself (not of the code under test): never reported as `panic`.
fn harness_bug(msg: String) -> ! {
    HARNESS_BUG.with(|b| b.set(true));
    eprintln!("h_saveload: internal error: {}", msg);
    panic!("harness bug");
}

// ------------------------------------------------------------------------------------------
// Marker kinds

trait MK: Marker + Send + Sync + 'static {
    const UUID: bool;
    fn setup(world: &mut World);
    /// marker -> printed id (simple: `id()`; uuid: position in the name table, appended when unknown)
    fn mid(&self, names: &mut Vec<String>) -> u64;
    /// (`idx` token, `map` token) of `dump`
    fn alloc_dump(world: &World) -> (String, String);
    fn idx_hint(world: &World, names: &Vec<String>) -> u64;
    /// `cfg uuidapp`: the application chooses the ids itself, counting from 0 (so the first one is the nil uuid), inserts
    /// `UuidMarker::new(id)` itself and registers it with `allocate(e, Some(id))`. `None` for marker kinds without that mode.
    fn app_marker(_alloc: &mut Self::Allocator, _e: Entity, _n: u64, _register: bool) -> Option<(Self, String)> { None }
    /// `cfg uuidreg`: the allocator object of world A is handed from one case of the process to the next (moved, not
    /// cloned). Its maintenance rebuilds it from the world it is in, so nothing of the earlier world may show (C20).
    fn stash(_world: &mut World) {}
    fn unstash(_world: &mut World) {}
    /// literal `load` records can be written in this marker's format (ids as plain numbers)
    const LITERAL: bool = false;
    /// an application-level change of the marked entity `e` (marker kinds that carry a revision next to the id)
    fn touch(_world: &World, _e: Entity) {}
}

/// Parses `SimpleMarkerAllocator { index: 2, mapping: {1: Entity(1, Generation(1)), ..}, _phantom_data: .. }`.
fn parse_simple_alloc(dbg: &str) -> (u64, Vec<(u64, u32, i32)>) {
    let bad = || -> ! { harness_bug(format!("unexpected allocator Debug text: {}", dbg)) };
    let i0 = dbg.find("index: ").unwrap_or_else(|| bad()) + 7;
    let i1 = i0 + dbg[i0..].find(',').unwrap_or_else(|| bad());
    let idx: u64 = dbg[i0..i1].trim().parse().unwrap_or_else(|_| bad());
    let m0 = dbg.find("mapping: {").unwrap_or_else(|| bad()) + 10;
    let m1 = m0 + dbg[m0..].find('}').unwrap_or_else(|| bad());
    let mut rest = dbg[m0..m1].trim();
    let mut map = Vec::new();
    while !rest.is_empty() {
        rest = rest.trim_start_matches(|c: char| c == ',' || c.is_whitespace());
        if rest.is_empty() {
            break;
        }
        let k1 = rest.find(": Entity(").unwrap_or_else(|| bad());
        let key: u64 = rest[..k1].trim().parse().unwrap_or_else(|_| bad());
        rest = &rest[k1 + 9..];
        let g0 = rest.find(", Generation(").unwrap_or_else(|| bad());
        let id: u32 = rest[..g0].trim().parse().unwrap_or_else(|_| bad());
        rest = &rest[g0 + 13..];
        let g1 = rest.find("))").unwrap_or_else(|| bad());
        let gen: i32 = rest[..g1].trim().parse().unwrap_or_else(|_| bad());
        rest = &rest[g1 + 2..];
        map.push((key, id, gen));
    }
    map.sort();
    (idx, map)
}

impl MK for SM {
    const UUID: bool = false;
    const LITERAL: bool = true;
    fn setup(world: &mut World) {
        world.register::<SM>();
        // every world of the process gets a CLONE of one pristine allocator (the pattern of the crate's own test): a clone
        // that shared state with its origin would make a world's marker ids depend on what other worlds did (C20)
        thread_local! { static PRISTINE: SimpleMarkerAllocator<Tag> = SimpleMarkerAllocator::<Tag>::new(); }
        world.insert(PRISTINE.with(|p| p.clone()));
    }
    fn mid(&self, _: &mut Vec<String>) -> u64 {
        self.id()
    }
    fn alloc_dump(world: &World) -> (String, String) {
        let dbg = format!("{:?}", *world.read_resource::<SimpleMarkerAllocator<Tag>>());
        let (idx, map) = parse_simple_alloc(&dbg);
        let m = if map.is_empty() {
            "-".to_string()
        } else {
            map.iter().map(|(k, i, g)| format!("{}={}:{}", k, i, g)).collect::<Vec<_>>().join(",")
        };
        (idx.to_string(), m)
    }
    fn idx_hint(world: &World, _: &Vec<String>) -> u64 {
        let dbg = format!("{:?}", *world.read_resource::<SimpleMarkerAllocator<Tag>>());
        parse_simple_alloc(&dbg).0
    }
}

/// A user-defined marker as in the crate's documentation (`NetMarker { id, seq }`): an id plus data that is NOT part of the
/// identity (a revision counter, bumped by the application whenever the entity changes; `update` takes the loaded one).
/// `==` compares both fields. The allocator mirrors `SimpleMarkerAllocator` and uses the trait's default
/// `retrieve_entity` / `mark`.
#[derive(Clone, Debug, PartialEq, Eq, Hash, Serialize, Deserialize)]
pub struct NetM { id: u64, rev: u64 }
impl Component for NetM { type Storage = DenseVecStorage<Self>; }
impl Marker for NetM {
    type Identifier = u64;
    type Allocator = NetAlloc;
    fn id(&self) -> u64 { self.id }
    fn update(&mut self, new_revision: Self) { self.rev = new_revision.rev; }
}
#[derive(Clone, Debug, Default)]
pub struct NetAlloc { index: u64, mapping: std::collections::HashMap<u64, Entity> }
impl MarkerAllocator<NetM> for NetAlloc {
    fn allocate(&mut self, entity: Entity, id: Option<u64>) -> NetM {
        let marker = if let Some(id) = id {
            if id >= self.index { self.index = id + 1; }
            NetM { id, rev: 0 }
        } else {
            self.index += 1;
            NetM { id: self.index - 1, rev: 0 }
        };
        self.mapping.insert(marker.id(), entity);
        marker
    }
    fn retrieve_entity_internal(&self, id: u64) -> Option<Entity> { self.mapping.get(&id).cloned() }
    fn maintain(&mut self, entities: &specs::world::EntitiesRes, storage: &ReadStorage<NetM>) {
        self.mapping = (entities, storage).join().map(|(e, m)| (m.id(), e)).collect();
    }
}
impl MK for NetM {
    const UUID: bool = false;
    fn setup(world: &mut World) {
        world.register::<NetM>();
        world.insert(NetAlloc::default());
    }
    fn mid(&self, _: &mut Vec<String>) -> u64 { self.id }
    fn alloc_dump(world: &World) -> (String, String) {
        let dbg = format!("{:?}", *world.read_resource::<NetAlloc>());
        let (idx, map) = parse_simple_alloc(&dbg);
        let m = if map.is_empty() { "-".to_string() } else { map.iter().map(|(k, i, g)| format!("{}={}:{}", k, i, g)).collect::<Vec<_>>().join(",") };
        (idx.to_string(), m)
    }
    fn idx_hint(world: &World, _: &Vec<String>) -> u64 {
        parse_simple_alloc(&format!("{:?}", *world.read_resource::<NetAlloc>())).0
    }
    fn touch(world: &World, e: Entity) {
        if let Some(m) = world.write_storage::<NetM>().get_mut(e) { m.rev += 1; }
    }
}

thread_local! { static CARRIED_U: std::cell::RefCell<Option<UuidMarkerAllocator>> = std::cell::RefCell::new(None); }

impl MK for UuidMarker {
    const UUID: bool = true;
    fn setup(world: &mut World) {
        world.register::<UuidMarker>();
        thread_local! { static PRISTINE_U: UuidMarkerAllocator = UuidMarkerAllocator::new(); }
        world.insert(PRISTINE_U.with(|p| p.clone()));
    }
    fn mid(&self, names: &mut Vec<String>) -> u64 {
        let s = format!("{}", self.uuid());
        match names.iter().position(|n| *n == s) {
            Some(i) => i as u64,
            None => {
                names.push(s);
                (names.len() - 1) as u64
            }
        }
    }
    fn alloc_dump(_: &World) -> (String, String) {
        ("-".into(), "-".into())
    }
    fn idx_hint(_: &World, names: &Vec<String>) -> u64 {
        names.len() as u64
    }
    fn app_marker(alloc: &mut UuidMarkerAllocator, e: Entity, n: u64, register: bool) -> Option<(Self, String)> {
        use specs::saveload::MarkerAllocator as _;
        let id = uuid::Uuid::from_u128(n as u128);
        // the application's own marker goes into the storage; `allocate(e, Some(id))` only tells the allocator about it
        if register { let _ = alloc.allocate(e, Some(id)); }
        Some((UuidMarker::new(id), format!("{}", id)))
    }
    fn stash(world: &mut World) {
        if let Some(a) = world.remove::<UuidMarkerAllocator>() { CARRIED_U.with(|c| *c.borrow_mut() = Some(a)); }
    }
    fn unstash(world: &mut World) {
        if let Some(a) = CARRIED_U.with(|c| c.borrow_mut().take()) { world.insert(a); }
    }
}

// ------------------------------------------------------------------------------------------
// Records

#[derive(Clone, Debug, PartialEq)]
enum RecE {
    Nil,
    One(u64),
    Val(i32),
}
#[derive(Clone, Debug, PartialEq)]
struct Rec {
    m: u64,
    p: Option<i32>,
    r: Option<(u64, u64)>,
    e: Option<RecE>,
}

fn show_rec(r: &Rec) -> String {
    let p = match r.p { Some(v) => v.to_string(), None => "-".into() };
    let rr = match r.r { Some((a, b)) => format!("{},{}", a, b), None => "-".into() };
    let e = match &r.e {
        Some(RecE::Nil) => "nil".to_string(),
        Some(RecE::One(m)) => format!("one:{}", m),
        Some(RecE::Val(v)) => format!("val:{}", v),
        None => "-".into(),
    };
    format!("m={} p={} r={} e={}", r.m, p, rr, e)
}

fn show_recs(recs: &[Rec]) -> String {
    let mut s = format!("recs {}", recs.len());
    for r in recs {
        s.push_str(" | ");
        s.push_str(&show_rec(r));
    }
    s
}

fn parse_rec(ts: &[&str]) -> Option<Rec> {
    if ts.len() != 4 {
        return None;
    }
    let m = ts[0].strip_prefix("m=")?.parse().ok()?;
    let p = match ts[1].strip_prefix("p=")? { "-" => None, v => Some(v.parse().ok()?) };
    let r = match ts[2].strip_prefix("r=")? {
        "-" => None,
        v => { let (a, b) = v.split_once(',')?; Some((a.parse().ok()?, b.parse().ok()?)) }
    };
    let e = match ts[3].strip_prefix("e=")? {
        "-" => None,
        "nil" => Some(RecE::Nil),
        v => match v.split_once(':')? {
            ("one", m) => Some(RecE::One(m.parse().ok()?)),
            ("val", x) => Some(RecE::Val(x.parse().ok()?)),
            _ => return None,
        },
    };
    Some(Rec { m, p, r, e })
}

/// Typed serde data -> canonical records (marker ids are named strictly left to right).
fn to_recs<M: MK>(data: &Recs<M>, names: &mut Vec<String>) -> Vec<Rec> {
    let mut out = Vec::new();
    for d in data {
        let m = d.marker.mid(names);
        let p = d.components.0.as_ref().map(|p| p.0);
        let r = match d.components.1.as_ref() {
            Some(r) => { let a = r.a.mid(names); let b = r.b.mid(names); Some((a, b)) }
            None => None,
        };
        let e = match d.components.2.as_ref() {
            Some(ESaveloadData::Nil) => Some(RecE::Nil),
            Some(ESaveloadData::One(x)) => Some(RecE::One(x.mid(names))),
            Some(ESaveloadData::Val(v)) => Some(RecE::Val(*v)),
            None => None,
        };
        out.push(Rec { m, p, r, e });
    }
    out
}

/// Re-parses produced text with serde only; `None` when the text is not a sequence of well-formed records
/// (reported as `fail`: the serialised form itself is broken).
fn parse_text<M: MK>(text: &str, ron: bool) -> Option<Recs<M>> {
    if ron {
        ron::from_str::<Recs<M>>(text).ok()
    } else {
        serde_json::from_str::<Recs<M>>(text).ok()
    }
}

/// Literal records -> JSON text (SimpleMarker layout).
fn recs_to_json(recs: &[Rec]) -> String {
    let mut s = String::from("[");
    for (i, r) in recs.iter().enumerate() {
        if i > 0 {
            s.push(',');
        }
        write!(s, "{{\"marker\":[{}],\"components\":[", r.m).unwrap();
        match r.p { Some(v) => write!(s, "{}", v).unwrap(), None => s.push_str("null") }
        s.push(',');
        match r.r { Some((a, b)) => write!(s, "{{\"a\":[{}],\"b\":[{}]}}", a, b).unwrap(), None => s.push_str("null") }
        s.push(',');
        match &r.e {
            Some(RecE::Nil) => s.push_str("\"Nil\""),
            Some(RecE::One(m)) => write!(s, "{{\"One\":[{}]}}", m).unwrap(),
            Some(RecE::Val(v)) => write!(s, "{{\"Val\":{}}}", v).unwrap(),
            None => s.push_str("null"),
        }
        s.push_str("]}");
    }
    s.push(']');
    s
}

// ------------------------------------------------------------------------------------------
// Ops

#[derive(Clone, Debug, PartialEq)]
enum EV {
    Nil,
    One(usize),
    Val(i32),
}

#[derive(Clone, Debug, PartialEq)]
enum Op {
    /// app: 0 = ids from the allocator, 1 = `uuidapp`, 2 = `uuidreg`, 3 = `net` (user-defined marker with a revision; uuid = false)
    Cfg { uuid: bool, ron: bool, app: u8 },
    Create(usize, bool),
    SetP(usize, usize, Option<i32>),
    SetR(usize, usize, Option<(usize, usize)>),
    SetE(usize, usize, Option<EV>),
    Mark(usize, usize),
    /// `LazyBuilder { entity, lazy }.marked::<M>()`: the marking is queued and happens inside the next `maintain`
    MarkLazy(usize, usize),
    DelNow(usize, usize),
    DelBatch(usize, Vec<usize>),
    DelAtomic(usize, usize),
    Maintain(usize),
    AllocMaintain(usize),
    /// `world.insert(<fresh allocator>)`: the allocator resource is replaced (a re-initialisation routine). Outside the
    /// histories of C14/C15 (a fresh allocator hands out ids from 0 again); generated only in `det` mode, for C20.
    AllocReset(usize),
    Serialize(usize, bool),
    Deserialize(usize, usize),
    Load(usize, Vec<Rec>),
    Roundtrip(usize, bool),
    Dump(usize),
    /// Finding F2 probe: a unit-struct component (no data) on marked entities, plain serialise in the case's
    /// format, load into a fresh world; result `unit kept <k> of <n>` (k = carriers of the unit component after loading).
    UnitRoundtrip,
    /// A recursive save that FAILS half-way (the writer refuses after a few bytes) in a throw-away world of the same thread:
    /// a marked entity referring to unmarked ones. Nothing of it may show in the worlds of the case (C20: nothing
    /// observable depends on what happened in another world). Result `ok` (the save failed as arranged) / `saved?`.
    ScratchFailedSave,
}

fn wn(w: usize) -> &'static str {
    if w == 0 { "A" } else { "B" }
}

fn show_op(op: &Op) -> String {
    match op {
        Op::UnitRoundtrip => "unit_roundtrip".to_string(),
        Op::ScratchFailedSave => "scratch_failed_save".to_string(),
        Op::Cfg { uuid, ron, app } => format!("cfg {} {}", if *uuid { ["uuid", "uuidapp", "uuidreg"][*app as usize] } else if *app == 3 { "net" } else { "simple" }, if *ron { "ron" } else { "json" }),
        Op::Create(w, atomic) => format!("create {} {}", wn(*w), if *atomic { "atomic" } else { "now" }),
        Op::SetP(w, k, Some(v)) => format!("setp {} @{} {}", wn(*w), k, v),
        Op::SetP(w, k, None) => format!("setp {} @{} -", wn(*w), k),
        Op::SetR(w, k, Some((a, b))) => format!("setr {} @{} @{} @{}", wn(*w), k, a, b),
        Op::SetR(w, k, None) => format!("setr {} @{} -", wn(*w), k),
        Op::SetE(w, k, Some(EV::Nil)) => format!("sete {} @{} nil", wn(*w), k),
        Op::SetE(w, k, Some(EV::One(a))) => format!("sete {} @{} one @{}", wn(*w), k, a),
        Op::SetE(w, k, Some(EV::Val(v))) => format!("sete {} @{} val {}", wn(*w), k, v),
        Op::SetE(w, k, None) => format!("sete {} @{} -", wn(*w), k),
        Op::Mark(w, k) => format!("mark {} @{}", wn(*w), k),
        Op::MarkLazy(w, k) => format!("mark_lazy {} @{}", wn(*w), k),
        Op::DelNow(w, k) => format!("del_now {} @{}", wn(*w), k),
        Op::DelBatch(w, ks) => {
            let mut s = format!("del_batch {}", wn(*w));
            for k in ks { write!(s, " @{}", k).unwrap(); }
            s
        }
        Op::DelAtomic(w, k) => format!("del_atomic {} @{}", wn(*w), k),
        Op::Maintain(w) => format!("maintain {}", wn(*w)),
        Op::AllocMaintain(w) => format!("alloc_maintain {}", wn(*w)),
        Op::AllocReset(w) => format!("alloc_reset {}", wn(*w)),
        Op::Serialize(w, false) => format!("serialize {}", wn(*w)),
        Op::Serialize(w, true) => format!("serialize_rec {}", wn(*w)),
        Op::Deserialize(w, k) => format!("deserialize {} #{}", wn(*w), k),
        Op::Load(w, recs) => {
            let mut s = format!("load {}", wn(*w));
            for (i, r) in recs.iter().enumerate() {
                if i > 0 { s.push_str(" |"); }
                s.push(' ');
                s.push_str(&show_rec(r));
            }
            s
        }
        Op::Roundtrip(w, rec) => format!("roundtrip {} {}", wn(*w), if *rec { "rec" } else { "plain" }),
        Op::Dump(w) => format!("dump {}", wn(*w)),
    }
}

fn pw(s: &str) -> Option<usize> {
    match s { "A" => Some(0), "B" => Some(1), _ => None }
}
fn slot(s: &str) -> Option<usize> {
    s.strip_prefix('@')?.parse().ok()
}

fn parse_op(line: &str) -> Option<Op> {
    let l = line.split(" => ").next().unwrap().trim();
    let ts: Vec<&str> = l.split_whitespace().collect();
    Some(match ts.as_slice() {
        ["unit_roundtrip"] => Op::UnitRoundtrip,
        ["scratch_failed_save"] => Op::ScratchFailedSave,
        ["cfg", m, f] => Op::Cfg {
            uuid: match *m { "simple" | "net" => false, "uuid" | "uuidapp" | "uuidreg" => true, _ => return None },
            app: match *m { "uuidapp" => 1, "uuidreg" => 2, "net" => 3, _ => 0 },
            ron: match *f { "json" => false, "ron" => true, _ => return None },
        },
        ["create", w, "now"] => Op::Create(pw(w)?, false),
        ["create", w, "atomic"] => Op::Create(pw(w)?, true),
        ["setp", w, k, "-"] => Op::SetP(pw(w)?, slot(k)?, None),
        ["setp", w, k, v] => Op::SetP(pw(w)?, slot(k)?, Some(v.parse().ok()?)),
        ["setr", w, k, "-"] => Op::SetR(pw(w)?, slot(k)?, None),
        ["setr", w, k, a, b] => Op::SetR(pw(w)?, slot(k)?, Some((slot(a)?, slot(b)?))),
        ["sete", w, k, "-"] => Op::SetE(pw(w)?, slot(k)?, None),
        ["sete", w, k, "nil"] => Op::SetE(pw(w)?, slot(k)?, Some(EV::Nil)),
        ["sete", w, k, "one", a] => Op::SetE(pw(w)?, slot(k)?, Some(EV::One(slot(a)?))),
        ["sete", w, k, "val", v] => Op::SetE(pw(w)?, slot(k)?, Some(EV::Val(v.parse().ok()?))),
        ["mark", w, k] => Op::Mark(pw(w)?, slot(k)?),
        ["mark_lazy", w, k] => Op::MarkLazy(pw(w)?, slot(k)?),
        ["del_now", w, k] => Op::DelNow(pw(w)?, slot(k)?),
        ["del_batch", w, ks @ ..] => Op::DelBatch(pw(w)?, ks.iter().map(|k| slot(k)).collect::<Option<_>>()?),
        ["del_atomic", w, k] => Op::DelAtomic(pw(w)?, slot(k)?),
        ["maintain", w] => Op::Maintain(pw(w)?),
        ["alloc_maintain", w] => Op::AllocMaintain(pw(w)?),
        ["alloc_reset", w] => Op::AllocReset(pw(w)?),
        ["serialize", w] => Op::Serialize(pw(w)?, false),
        ["serialize_rec", w] => Op::Serialize(pw(w)?, true),
        ["deserialize", w, k] => Op::Deserialize(pw(w)?, k.strip_prefix('#')?.parse().ok()?),
        ["load", w, rest @ ..] => {
            let mut recs = Vec::new();
            if !rest.is_empty() {
                for chunk in rest.split(|t| *t == "|") {
                    recs.push(parse_rec(chunk)?);
                }
            }
            Op::Load(pw(w)?, recs)
        }
        ["roundtrip", w, "plain"] => Op::Roundtrip(pw(w)?, false),
        ["roundtrip", w, "rec"] => Op::Roundtrip(pw(w)?, true),
        ["dump", w] => Op::Dump(pw(w)?),
        _ => return None,
    })
}

fn show_entity(e: Entity) -> String {
    format!("{}:{}", e.id(), e.gen().id())
}

// ------------------------------------------------------------------------------------------
// Real calls

fn new_world<M: MK>() -> World {
    let mut w = World::new();
    w.register::<P>();
    w.register::<R>();
    w.register::<E>();
    M::setup(&mut w);
    w
}

fn joined(world: &World) -> Vec<Entity> {
    let ents = world.entities();
    (&*ents).join().collect()
}

/// Ok(text) / Err(()) when the serializer returned Err; panics propagate.
/// `Err(true)`: the save was refused because a converted reference had no marker (the hand-written conversion of `R`).
fn ser_world<M: MK>(world: &World, rec: bool, ron: bool) -> Result<String, bool> {
    let mut buf: Vec<u8> = Vec::new();
    let ok = {
        let ents = world.entities();
        let p = world.read_storage::<P>();
        let r = world.read_storage::<R>();
        let e = world.read_storage::<E>();
        if rec {
            let mut markers = world.write_storage::<M>();
            let mut alloc = world.write_resource::<M::Allocator>();
            if ron {
                let mut ser = ron::ser::Serializer::new(&mut buf, None).map_err(|_| false)?;
                SerializeComponents::<SerErr, M>::serialize_recursive(&(&p, &r, &e), &ents, &mut markers, &mut *alloc, &mut ser).map(|_| ()).map_err(|e| e.to_string().contains("verif-no-marker"))
            } else {
                let mut ser = serde_json::Serializer::new(&mut buf);
                SerializeComponents::<SerErr, M>::serialize_recursive(&(&p, &r, &e), &ents, &mut markers, &mut *alloc, &mut ser).map(|_| ()).map_err(|e| e.to_string().contains("verif-no-marker"))
            }
        } else {
            let markers = world.read_storage::<M>();
            if ron {
                let mut ser = ron::ser::Serializer::new(&mut buf, None).map_err(|_| false)?;
                SerializeComponents::<SerErr, M>::serialize(&(&p, &r, &e), &ents, &markers, &mut ser).map(|_| ()).map_err(|e| e.to_string().contains("verif-no-marker"))
            } else {
                let mut ser = serde_json::Serializer::new(&mut buf);
                SerializeComponents::<SerErr, M>::serialize(&(&p, &r, &e), &ents, &markers, &mut ser).map(|_| ()).map_err(|e| e.to_string().contains("verif-no-marker"))
            }
        }
    };
    match ok {
        Ok(()) => Ok(String::from_utf8(buf).unwrap_or_else(|_| harness_bug("serialised text is not utf-8".into()))),
        Err(no_marker) => Err(no_marker),
    }
}

/// true when the deserialiser returned Ok; panics propagate.
fn de_world<M: MK>(world: &World, text: &str, ron: bool) -> bool {
    let ents = world.entities();
    let p = world.write_storage::<P>();
    let r = world.write_storage::<R>();
    let e = world.write_storage::<E>();
    let mut markers = world.write_storage::<M>();
    let mut alloc = world.write_resource::<M::Allocator>();
    let mut st = (p, r, e);
    if ron {
        match ron::de::Deserializer::from_str(text) {
            Ok(mut de) => DeserializeComponents::<DeErr, M>::deserialize(&mut st, &ents, &mut markers, &mut *alloc, &mut de).is_ok(),
            Err(_) => false,
        }
    } else {
        let mut de = serde_json::Deserializer::from_str(text);
        DeserializeComponents::<DeErr, M>::deserialize(&mut st, &ents, &mut markers, &mut *alloc, &mut de).is_ok()
    }
}

fn dump_world<M: MK>(world: &World, names: &mut Vec<String>) -> String {
    use hibitset::BitSetLike;
    let (idx, map) = M::alloc_dump(world);
    let ents = world.entities();
    let ms = world.read_storage::<M>();
    let ps = world.read_storage::<P>();
    let rs = world.read_storage::<R>();
    let es = world.read_storage::<E>();
    let all: Vec<Entity> = (&*ents).join().collect();
    let mut s = format!("idx {} map {} ents {}", idx, map, all.len());
    for en in &all {
        let m = match ms.get(*en) { Some(m) => m.mid(names).to_string(), None => "-".into() };
        let p = match ps.get(*en) { Some(p) => p.0.to_string(), None => "-".into() };
        let r = match rs.get(*en) { Some(r) => format!("{},{}", show_entity(r.a), show_entity(r.b)), None => "-".into() };
        let e = match es.get(*en) {
            Some(E::Nil) => "nil".to_string(),
            Some(E::One(x)) => format!("one:{}", show_entity(*x)),
            Some(E::Val(v)) => format!("val:{}", v),
            None => "-".into(),
        };
        write!(s, " | {} m={} p={} r={} e={}", show_entity(*en), m, p, r, e).unwrap();
    }
    let list = |it: Vec<u32>| it.iter().map(|i| i.to_string()).collect::<Vec<_>>().join(",");
    write!(
        s,
        " masks m:{} p:{} r:{} e:{}",
        list(ms.mask().iter().collect()),
        list(ps.mask().iter().collect()),
        list(rs.mask().iter().collect()),
        list(es.mask().iter().collect())
    )
    .unwrap();
    s
}

// ------------------------------------------------------------------------------------------
// Executor (generic over the marker kind)

struct Exec<M: MK> {
    ron: bool,
    worlds: Vec<World>,
    logs: [Vec<Entity>; 2],
    slots: Vec<String>,
    names: Vec<String>,
    texts: Vec<String>,
    /// `cfg uuidapp`: world A's markers get application-chosen ids 0, 1, 2, .. (see `MK::app_marker`)
    app_ids: u8,
    /// entities with a queued `mark_lazy`, per world, in queue order
    lazy_marked: [Vec<Entity>; 2],
    _m: PhantomData<M>,
}

trait Runner {
    fn exec(&mut self, op: &Op) -> String;
    fn log_len(&self, w: usize) -> usize;
    /// log positions whose handle is alive (generator guidance only)
    fn live(&self, w: usize) -> Vec<usize>;
    fn nslots(&self) -> usize;
    fn idx_hint(&self, w: usize) -> u64;
    fn is_uuid(&self) -> bool;
    fn take_texts(&mut self) -> Vec<String>;
}

fn res_ins<T>(r: Result<Option<T>, specs::error::Error>) -> String {
    match r { Ok(_) => "ok".into(), Err(_) => "err".into() }
}

impl<M: MK> Drop for Exec<M> {
    fn drop(&mut self) {
        if self.app_ids == 2 { M::stash(&mut self.worlds[0]); }
    }
}

impl<M: MK> Exec<M> {
    fn new(ron: bool) -> Self {
        Exec {
            ron,
            worlds: vec![new_world::<M>(), new_world::<M>()],
            logs: [Vec::new(), Vec::new()],
            slots: Vec::new(),
            names: Vec::new(),
            texts: Vec::new(),
            app_ids: 0,
            lazy_marked: [Vec::new(), Vec::new()],
            _m: PhantomData,
        }
    }

    fn resolve(&self, w: usize, k: usize) -> Option<Entity> {
        let l = &self.logs[w];
        if l.is_empty() { None } else { Some(l[k % l.len()]) }
    }

    /// deserialise `text` into world w; result tokens of `deserialize` / `load`
    fn load_text(&mut self, w: usize, text: &str) -> String {
        let before = joined(&self.worlds[w]);
        if !de_world::<M>(&self.worlds[w], text, self.ron) {
            return "fail".into();
        }
        let after = joined(&self.worlds[w]);
        let mut s = String::from("ok new");
        for e in after {
            if !before.contains(&e) {
                write!(s, " {}", show_entity(e)).unwrap();
                self.logs[w].push(e);
            }
        }
        s
    }

    fn exec_inner(&mut self, op: &Op) -> String {
        match op {
            Op::Cfg { .. } => harness_bug("cfg reached the executor".into()),
            Op::UnitRoundtrip => harness_bug("unit_roundtrip reached the executor".into()),
            Op::ScratchFailedSave => {
                struct Failing(usize);
                impl std::io::Write for Failing {
                    fn write(&mut self, b: &[u8]) -> std::io::Result<usize> {
                        if self.0 < b.len() { return Err(std::io::Error::new(std::io::ErrorKind::Other, "disk full")); }
                        self.0 -= b.len();
                        Ok(b.len())
                    }
                    fn flush(&mut self) -> std::io::Result<()> { Ok(()) }
                }
                let mut w = new_world::<M>();
                let es: Vec<Entity> = (0..4).map(|_| w.create_entity().build()).collect();
                {
                    let mut r = w.write_storage::<R>();
                    let _ = r.insert(es[0], R { a: es[1], b: es[2] });
                    let _ = r.insert(es[1], R { a: es[3], b: es[0] });
                    let mut alloc = w.write_resource::<M::Allocator>();
                    let mut st = w.write_storage::<M>();
                    let _ = alloc.mark(es[0], &mut st);
                }
                let failed = {
                    let ents = w.entities();
                    let p = w.read_storage::<P>();
                    let r = w.read_storage::<R>();
                    let e = w.read_storage::<E>();
                    let mut markers = w.write_storage::<M>();
                    let mut alloc = w.write_resource::<M::Allocator>();
                    let mut ser = serde_json::Serializer::new(Failing(24));
                    SerializeComponents::<SerErr, M>::serialize_recursive(&(&p, &r, &e), &ents, &mut markers, &mut *alloc, &mut ser).is_err()
                };
                drop(w);
                if failed { "ok".into() } else { "saved?".into() }
            }
            Op::Create(w, atomic) => {
                let e = if *atomic { self.worlds[*w].entities().create() } else { self.worlds[*w].create_entity().build() };
                self.logs[*w].push(e);
                format!("e {}", show_entity(e))
            }
            Op::SetP(w, k, v) => {
                let e = match self.resolve(*w, *k) { Some(e) => e, None => return "skip".into() };
                M::touch(&self.worlds[*w], e);
                let mut st = self.worlds[*w].write_storage::<P>();
                match v {
                    Some(v) => res_ins(st.insert(e, P(*v))),
                    None => { st.remove(e); "ok".into() }
                }
            }
            Op::SetR(w, k, v) => {
                let e = match self.resolve(*w, *k) { Some(e) => e, None => return "skip".into() };
                let mut st = self.worlds[*w].write_storage::<R>();
                match v {
                    Some((a, b)) => {
                        let a = self.resolve(*w, *a).unwrap();
                        let b = self.resolve(*w, *b).unwrap();
                        res_ins(st.insert(e, R { a, b }))
                    }
                    None => { st.remove(e); "ok".into() }
                }
            }
            Op::SetE(w, k, v) => {
                let e = match self.resolve(*w, *k) { Some(e) => e, None => return "skip".into() };
                let mut st = self.worlds[*w].write_storage::<E>();
                match v {
                    Some(EV::Nil) => res_ins(st.insert(e, E::Nil)),
                    Some(EV::One(a)) => { let a = self.resolve(*w, *a).unwrap(); res_ins(st.insert(e, E::One(a))) }
                    Some(EV::Val(x)) => res_ins(st.insert(e, E::Val(*x))),
                    None => { st.remove(e); "ok".into() }
                }
            }
            Op::Mark(w, k) => {
                if M::UUID && *w == 1 { return "skip".into(); }
                let e = match self.resolve(*w, *k) { Some(e) => e, None => return "skip".into() };
                let world = &self.worlds[*w];
                let mut alloc = world.write_resource::<M::Allocator>();
                let mut st = world.write_storage::<M>();
                if self.app_ids != 0 && !st.contains(e) && world.entities().is_alive(e) {
                    let n = self.names.len() as u64;
                    if let Some((m, name)) = M::app_marker(&mut alloc, e, n, self.app_ids == 1) {
                        self.names.push(name);
                        st.insert(e, m.clone()).unwrap();
                        if self.app_ids == 2 {
                            // `uuidreg`: the allocator learns about hand-made markers through its maintenance
                            drop(st);
                            alloc.maintain(&world.entities(), &world.read_storage::<M>());
                        }
                        return format!("m {} new", m.mid(&mut self.names));
                    }
                }
                match alloc.mark(e, &mut st) {
                    Some((m, new)) => { let id = m.mid(&mut self.names); format!("m {} {}", id, if new { "new" } else { "old" }) }
                    None => "none".into(),
                }
            }
            Op::MarkLazy(w, k) => {
                use specs::saveload::MarkedBuilder as _;
                if M::UUID && *w == 1 { return "skip".into(); }
                let e = match self.resolve(*w, *k) { Some(e) => e, None => return "skip".into() };
                let world = &self.worlds[*w];
                let lazy = world.read_resource::<LazyUpdate>();
                let _ = specs::world::LazyBuilder { entity: e, lazy: &*lazy }.marked::<M>().build();
                self.lazy_marked[*w].push(e);
                "ok".into()
            }
            Op::DelNow(w, k) => match self.resolve(*w, *k) {
                None => "skip".into(),
                Some(e) => match self.worlds[*w].delete_entity(e) { Ok(()) => "ok".into(), Err(_) => "err".into() },
            },
            Op::DelBatch(w, ks) => {
                if self.logs[*w].is_empty() { return "skip".into(); }
                let es: Vec<Entity> = ks.iter().map(|k| self.resolve(*w, *k).unwrap()).collect();
                match self.worlds[*w].delete_entities(&es) { Ok(()) => "ok".into(), Err((_, pos)) => format!("err {}", pos) }
            }
            Op::DelAtomic(w, k) => match self.resolve(*w, *k) {
                None => "skip".into(),
                Some(e) => match self.worlds[*w].entities().delete(e) { Ok(()) => "ok".into(), Err(_) => "err".into() },
            },
            Op::Maintain(w) => {
                self.worlds[*w].maintain();
                // uuid names are handed out in order of first appearance: look at the lazily made markers in queue order
                let queued: Vec<Entity> = self.lazy_marked[*w].drain(..).collect();
                let st = self.worlds[*w].read_storage::<M>();
                for e in queued {
                    if let Some(m) = st.get(e) { let _ = m.mid(&mut self.names); }
                }
                "ok".into()
            }
            Op::AllocMaintain(w) => {
                let world = &self.worlds[*w];
                let ents = world.entities();
                let markers = world.read_storage::<M>();
                let mut alloc = world.write_resource::<M::Allocator>();
                alloc.maintain(&ents, &markers);
                "ok".into()
            }
            Op::AllocReset(w) => {
                if M::UUID { return "skip".into(); }
                let keep = self.worlds[*w].read_storage::<M>().count();   // (markers stay in the storage)
                M::setup(&mut self.worlds[*w]);
                if self.worlds[*w].read_storage::<M>().count() != keep { harness_bug("alloc_reset changed the marker storage".into()); }
                "ok".into()
            }
            Op::Serialize(w, rec) => {
                if M::UUID && *w == 1 && *rec { return "skip".into(); }
                match ser_world::<M>(&self.worlds[*w], *rec, self.ron) {
                    Err(no_marker) => if no_marker { "panic".into() } else { "fail".into() },
                    Ok(text) => {
                        self.texts.push(text.clone());
                        let data = match parse_text::<M>(&text, self.ron) { Some(d) => d, None => return "fail".into() };
                        let recs = to_recs::<M>(&data, &mut self.names);
                        self.slots.push(text);
                        show_recs(&recs)
                    }
                }
            }
            Op::Deserialize(w, k) => {
                if self.slots.is_empty() { return "skip".into(); }
                let text = self.slots[*k % self.slots.len()].clone();
                self.load_text(*w, &text)
            }
            Op::Load(w, recs) => {
                if !M::LITERAL { return "skip".into(); }
                let json = recs_to_json(recs);
                let text = if self.ron {
                    let data = serde_json::from_str::<Recs<M>>(&json).unwrap_or_else(|e| harness_bug(format!("bad literal JSON `{}`: {}", json, e)));
                    ron::to_string(&data).unwrap_or_else(|e| harness_bug(format!("cannot write RON: {}", e)))
                } else {
                    json
                };
                self.texts.push(text.clone());
                self.load_text(*w, &text)
            }
            Op::Roundtrip(w, rec) => {
                if M::UUID && *w == 1 && *rec { return "skip".into(); }
                let text = match ser_world::<M>(&self.worlds[*w], *rec, self.ron) { Ok(t) => t, Err(no_marker) => return if no_marker { "panic".into() } else { "fail".into() } };
                self.texts.push(text.clone());
                let fresh = new_world::<M>();
                if !de_world::<M>(&fresh, &text, self.ron) { return "fail".into(); }
                let data = match parse_text::<M>(&text, self.ron) { Some(d) => d, None => return "fail".into() };
                let recs = to_recs::<M>(&data, &mut self.names);
                let d1 = dump_world::<M>(&self.worlds[*w], &mut self.names);
                let d2 = dump_world::<M>(&fresh, &mut self.names);
                format!("rt {} || {} || {}", show_recs(&recs), d1, d2)
            }
            Op::Dump(w) => dump_world::<M>(&self.worlds[*w], &mut self.names),
        }
    }
}

impl<M: MK> Runner for Exec<M> {
    fn exec(&mut self, op: &Op) -> String {
        let r = catch_unwind(AssertUnwindSafe(|| self.exec_inner(op)));
        match r {
            Ok(s) => s,
            Err(_) => {
                if HARNESS_BUG.with(|b| b.get()) {
                    std::process::exit(3);
                }
                "panic".into()
            }
        }
    }
    fn log_len(&self, w: usize) -> usize {
        self.logs[w].len()
    }
    fn live(&self, w: usize) -> Vec<usize> {
        let ents = self.worlds[w].entities();
        (0..self.logs[w].len()).filter(|k| ents.is_alive(self.logs[w][*k])).collect()
    }
    fn nslots(&self) -> usize {
        self.slots.len()
    }
    fn idx_hint(&self, w: usize) -> u64 {
        M::idx_hint(&self.worlds[w], &self.names)
    }
    fn is_uuid(&self) -> bool {
        M::UUID
    }
    fn take_texts(&mut self) -> Vec<String> {
        std::mem::take(&mut self.texts)
    }
}

fn make_runner(uuid: bool, ron: bool, app: u8) -> Box<dyn Runner> {
    if uuid {
        let mut e = Exec::<UuidMarker>::new(ron);
        e.app_ids = app;
        if app == 2 { UuidMarker::unstash(&mut e.worlds[0]); }
        Box::new(e)
    } else if app == 3 { Box::new(Exec::<NetM>::new(ron)) } else { Box::new(Exec::<SM>::new(ron)) }
}

/// Unit-struct component (serialises as serde's unit struct).
#[derive(Clone, Copy, Debug, Default, PartialEq, Serialize, Deserialize)]
struct UnitC;
impl Component for UnitC { type Storage = NullStorage<Self>; }

/// See `Op::UnitRoundtrip`. Three marked entities: unit component + P, unit component only, P only.
fn unit_roundtrip(ron: bool) -> String {
    use specs::saveload::MarkedBuilder as _;
    fn mk() -> World {
        let mut w = World::new();
        w.register::<UnitC>();
        w.register::<P>();
        w.register::<SM>();
        w.insert(specs::saveload::SimpleMarkerAllocator::<Tag>::default());
        w
    }
    let r = catch_unwind(AssertUnwindSafe(|| {
        let mut w = mk();
        w.create_entity().with(UnitC).with(P(1)).marked::<SM>().build();
        w.create_entity().with(UnitC).marked::<SM>().build();
        w.create_entity().with(P(2)).marked::<SM>().build();
        let mut buf: Vec<u8> = Vec::new();
        let ok = {
            let (ents, u, p, m) = (w.entities(), w.read_storage::<UnitC>(), w.read_storage::<P>(), w.read_storage::<SM>());
            if ron {
                match ron::ser::Serializer::new(&mut buf, None) {
                    Ok(mut ser) => SerializeComponents::<Infallible, SM>::serialize(&(&u, &p), &ents, &m, &mut ser).is_ok(),
                    Err(_) => false,
                }
            } else {
                let mut ser = serde_json::Serializer::new(&mut buf);
                SerializeComponents::<Infallible, SM>::serialize(&(&u, &p), &ents, &m, &mut ser).is_ok()
            }
        };
        if !ok { return "fail".to_string(); }
        let text = String::from_utf8(buf).unwrap();
        let w2 = mk();
        let ok = {
            let (ents, mut u, mut p, mut m, mut a) = (w2.entities(), w2.write_storage::<UnitC>(), w2.write_storage::<P>(), w2.write_storage::<SM>(), w2.write_resource::<specs::saveload::SimpleMarkerAllocator<Tag>>());
            if ron {
                match ron::de::Deserializer::from_str(&text) {
                    Ok(mut de) => DeserializeComponents::<Infallible, SM>::deserialize(&mut (&mut u, &mut p), &ents, &mut m, &mut *a, &mut de).is_ok(),
                    Err(_) => false,
                }
            } else {
                let mut de = serde_json::Deserializer::from_str(&text);
                DeserializeComponents::<Infallible, SM>::deserialize(&mut (&mut u, &mut p), &ents, &mut m, &mut *a, &mut de).is_ok()
            }
        };
        if !ok { return "fail".to_string(); }
        let k = w2.read_storage::<UnitC>().count();
        let np = w2.read_storage::<P>().count();
        if np != 2 { return format!("unit kept {} of 2 p={}", k, np); }
        format!("unit kept {} of 2", k)
    }));
    r.unwrap_or_else(|_| "panic".to_string())
}

struct Harness {
    runner: Box<dyn Runner>,
    show_text: bool,
    ron: bool,
}

impl Harness {
    fn new(show_text: bool) -> Self {
        Harness { runner: make_runner(false, false, 0), show_text, ron: false }
    }
    /// executes one op, appends its transcript line, returns the result tokens
    fn step(&mut self, op: &Op, out: &mut String) -> String {
        *WD_BUSY.lock().unwrap() = Some((std::time::Instant::now(), show_op(op)));
        let res = if let Op::Cfg { uuid, ron, app } = op {
            self.runner = make_runner(*uuid, *ron, *app);
            self.ron = *ron;
            "ok".to_string()
        } else if let Op::UnitRoundtrip = op {
            unit_roundtrip(self.ron)
        } else {
            self.runner.exec(op)
        };
        *WD_BUSY.lock().unwrap() = None;
        writeln!(out, "{} => {}", show_op(op), res).unwrap();
        writeln!(WD_CASE.lock().unwrap(), "{} => {}", show_op(op), res).unwrap();
        let texts = self.runner.take_texts();
        if self.show_text {
            for t in texts { writeln!(out, "# text {}", t).unwrap(); }
        }
        res
    }
}

// ------------------------------------------------------------------------------------------
// Generators

fn small(rng: &mut Rng) -> i32 {
    rng.range(0, 12) as i32 - 3
}

fn pick_slot(rng: &mut Rng, n: usize) -> usize {
    if n == 0 { 0 }
    else if rng.chance(1, 2) { n - 1 - rng.below(n.min(4) as u64) as usize }
    else { rng.below(n as u64) as usize }
}

/// mostly a live handle (recent ones preferred), sometimes any handle
fn pick_ent(rng: &mut Rng, h: &Harness, w: usize) -> usize {
    let live = h.runner.live(w);
    if !live.is_empty() && rng.chance(5, 6) { live[pick_slot(rng, live.len())] } else { pick_slot(rng, h.runner.log_len(w)) }
}

fn shuffle<T>(rng: &mut Rng, v: &mut Vec<T>) {
    for i in (1..v.len()).rev() {
        let j = rng.below(i as u64 + 1) as usize;
        v.swap(i, j);
    }
}

/// Round-trip case: a small world A with reference structure, then the fixed probe tail.
fn gen_rt(rng: &mut Rng) -> Vec<Op> {
    let uuid = rng.chance(1, 3);
    let net = !uuid && rng.chance(1, 4);
    let mut ops = vec![Op::Cfg { uuid, ron: rng.chance(1, 2), app: if net { 3 } else { (uuid && rng.chance(1, 2)) as u8 } }];
    let mut nlog = 0usize;
    let mut live: Vec<usize> = Vec::new();
    let mut dead: Vec<usize> = Vec::new();
    // prelude: free some indices so that later creations reuse them with a higher generation
    if rng.chance(1, 3) {
        let k = rng.range(1, 3) as usize;
        for _ in 0..k { ops.push(Op::Create(0, rng.chance(1, 3))); nlog += 1; }
        let mut victims: Vec<usize> = (0..k).collect();
        shuffle(rng, &mut victims);
        victims.truncate(rng.range(1, k as u64) as usize);
        for v in &victims {
            ops.push(if rng.chance(1, 2) { Op::DelNow(0, *v) } else { Op::DelAtomic(0, *v) });
            dead.push(*v);
        }
        ops.push(Op::Maintain(0));
        for i in 0..k { if !dead.contains(&i) { live.push(i); } }
    }
    // wide cases: few marked roots, references spread over the whole (mostly unmarked) population, so that one
    // round of the recursive walk discovers several unmarked entities at once
    let wide = rng.chance(1, 4);
    let n = if wide { rng.range(5, 10) } else { rng.range(1, 8) } as usize;
    let target = n.max(live.len() + 1);
    while live.len() < target {
        ops.push(Op::Create(0, rng.chance(1, 3)));
        live.push(nlog);
        nlog += 1;
    }
    if rng.chance(1, 2) { ops.push(Op::Maintain(0)); }
    // marked subset
    let mut marked: Vec<usize> = match if wide { 10 } else { rng.below(10) } {
        10 => { let mut v = vec![*rng.pick(&live)]; if rng.chance(1, 3) { let y = *rng.pick(&live); if !v.contains(&y) { v.push(y); } } v }
        0 => Vec::new(),
        1 | 2 | 3 => live.clone(),
        _ => {
            let mut v: Vec<usize> = live.iter().cloned().filter(|_| rng.chance(3, 5)).collect();
            if v.is_empty() { v.push(*rng.pick(&live)); }
            v
        }
    };
    if rng.chance(1, 2) { shuffle(rng, &mut marked); }
    // a fifth of the cases mark some of the entities lazily (queued, applied by a `maintain` behind the mark ops)
    let lazy_marks = rng.chance(1, 5);
    let mut mark_ops: Vec<Op> = marked.iter().map(|k| if lazy_marks && rng.chance(1, 2) { Op::MarkLazy(0, *k) } else { Op::Mark(0, *k) }).collect();
    if lazy_marks { mark_ops.push(Op::Maintain(0)); }
    let marks_first = rng.chance(1, 2);
    if marks_first { ops.extend(mark_ops.iter().cloned()); }
    // references: clean cases only point at marked entities
    let clean = !wide && rng.chance(2, 5);
    let pool: Vec<usize> = if marked.is_empty() { live.clone() } else { marked.clone() };
    let pick_ref = |rng: &mut Rng| -> usize {
        if wide && rng.chance(9, 10) { *rng.pick(&live) }
        else if clean || rng.chance(85, 100) { *rng.pick(&pool) }
        else if !dead.is_empty() && rng.chance(1, 4) { *rng.pick(&dead) }
        else { *rng.pick(&live) }
    };
    let mut sets: Vec<Op> = Vec::new();
    for &k in &live {
        if rng.chance(1, 2) { sets.push(Op::SetP(0, k, Some(small(rng)))); }
        if rng.chance(1, 2) { let a = pick_ref(rng); let b = pick_ref(rng); sets.push(Op::SetR(0, k, Some((a, b)))); }
        if rng.chance(1, 2) {
            let v = match rng.below(4) { 0 => EV::Nil, 1 => EV::Val(small(rng)), _ => EV::One(pick_ref(rng)) };
            sets.push(Op::SetE(0, k, Some(v)));
        }
    }
    // deliberate shapes among the pool: self loop, 2-cycle, longer cycle
    if rng.chance(1, 3) {
        let x = *rng.pick(&pool);
        sets.push(if rng.chance(1, 2) { Op::SetR(0, x, Some((x, x))) } else { Op::SetE(0, x, Some(EV::One(x))) });
    }
    if pool.len() >= 2 && rng.chance(1, 3) {
        let x = *rng.pick(&pool);
        let mut y = *rng.pick(&pool);
        if y == x { y = pool[(pool.iter().position(|p| *p == x).unwrap() + 1) % pool.len()]; }
        let z = pick_ref(rng);
        sets.push(Op::SetR(0, x, Some((y, z))));
        sets.push(Op::SetE(0, y, Some(EV::One(x))));
    }
    if pool.len() >= 3 && rng.chance(1, 4) {
        let mut cyc = pool.clone();
        shuffle(rng, &mut cyc);
        cyc.truncate(rng.range(3, cyc.len().min(5) as u64) as usize);
        for i in 0..cyc.len() {
            let nxt = cyc[(i + 1) % cyc.len()];
            let other = pick_ref(rng);
            sets.push(if rng.chance(1, 2) { Op::SetR(0, cyc[i], Some((nxt, other))) } else { Op::SetE(0, cyc[i], Some(EV::One(nxt))) });
        }
    }
    ops.extend(sets);
    if !marks_first { ops.extend(mark_ops); }
    ops.push(Op::Dump(0));
    ops.push(Op::Roundtrip(0, false));
    ops.push(Op::Dump(0));
    ops.push(Op::Roundtrip(0, true));
    ops.push(Op::Dump(0));
    ops.push(Op::Serialize(0, false));
    ops.push(Op::Deserialize(1, 0));
    ops.push(Op::Dump(1));
    if rng.chance(1, 2) {
        ops.push(Op::Serialize(0, true));
        ops.push(Op::Deserialize(1, 1));
        ops.push(Op::Dump(1));
    }
    // F2 probe last (the monitor stops at its first rejection of a case)
    if rng.chance(1, 8) { ops.push(Op::UnitRoundtrip); }
    ops
}

fn gen_load_recs(rng: &mut Rng, idx: u64) -> Vec<Rec> {
    let n = [0usize, 1, 1, 1, 1, 2, 2, 2, 2, 3, 3, 3, 4][rng.below(13) as usize];
    let mut ids: Vec<u64> = Vec::new();
    for i in 0..n {
        let m = if i > 0 && rng.chance(1, 5) { *rng.pick(&ids) }           // duplicate marker inside one load
            else if rng.chance(1, 5) { idx + 1 + rng.below(4) }              // above the counter (leaves a gap)
            else if rng.chance(1, 5) { idx }                                 // exactly the counter
            else { rng.below(idx.max(1) + 1) };                              // an id that probably exists
        ids.push(m);
    }
    let refid = |rng: &mut Rng| -> u64 {
        match rng.below(20) {
            0..=11 => *rng.pick(&ids),                  // inside this load (self, forward, backward)
            12..=16 => rng.below(idx + 1),              // probably existing
            _ => idx + rng.below(8),                    // dangling / above the counter
        }
    };
    let mut recs = Vec::new();
    for i in 0..n {
        let p = if rng.chance(2, 3) { Some(small(rng)) } else { None };
        let r = if rng.chance(1, 2) { Some((refid(rng), refid(rng))) } else { None };
        let e = if rng.chance(1, 2) {
            Some(match rng.below(4) { 0 => RecE::Nil, 1 => RecE::Val(small(rng)), _ => RecE::One(refid(rng)) })
        } else { None };
        recs.push(Rec { m: ids[i], p, r, e });
    }
    recs
}

/// History case: random ops on both worlds, generated against the live harness state.
fn gen_hist(rng: &mut Rng, maxlen: usize, h: &mut Harness, out: &mut String, det: bool) {
    let uuid = rng.chance(3, 20);
    let uuid = uuid || (det && rng.chance(1, 4));
    let net = !uuid && rng.chance(1, 5);
    let app = if net { 3 } else if !uuid { 0 } else if det && rng.chance(1, 2) { 2 } else { rng.chance(1, 2) as u8 };
    h.step(&Op::Cfg { uuid, ron: rng.chance(1, 2), app }, out);
    let len = rng.range(3, maxlen.max(3) as u64) as usize;
    let w_maint = *rng.pick(&[3u32, 6, 10]);
    let w_del = *rng.pick(&[2u32, 4, 7]);
    let w_load = if uuid || net { 0 } else { *rng.pick(&[3u32, 7, 10]) };
    let w_de = *rng.pick(&[6u32, 10]);
    let mut pending: VecDeque<Op> = VecDeque::new();
    let mut last_load: Option<Op> = None;
    let mut count = 0usize;
    let warm = if !uuid && rng.chance(1, 5) { 0 } else { (len / 3).min(rng.range(2, 8) as usize) };
    while count < len {
        let op = if let Some(op) = pending.pop_front() { op } else {
            let mut w = if rng.chance(if count < warm || uuid { 4 } else { 3 }, 5) { 0 } else { 1 };
            let n = h.runner.log_len(w);
            let k = pick_ent(rng, h, w);
            let ws = [
                8, 5, 7, 7, 7, 3, 10,           // create now, create atomic, setp, setr, sete, remove comp, mark
                w_del + 1, w_del, 2,            // del_now, del_atomic, del_batch
                w_maint, if det { 5 } else { 1 }, // maintain, alloc_maintain (det mode: half of them behind an alloc_reset)
                6, 4, w_de, w_load, 2,          // serialize, serialize_rec, deserialize, load, roundtrip
            ];
            // warm-up: populate the worlds before the save/load traffic starts
            let warm_ws = [6, 3, 2, 4, 4, 0, 7, 0, 0, 0, 0, 0, 0, 0, 0, 0, 0];
            let mut choice = if count < warm { rng.weighted(&warm_ws) } else { rng.weighted(&ws) };
            // avoid wasting ops on `skip`: an empty log wants a creation, an empty slot table wants data
            if n == 0 && matches!(choice, 2..=9) && !rng.chance(1, 8) { choice = rng.below(2) as usize; }
            if h.runner.nslots() == 0 && choice == 14 && !rng.chance(1, 8) { choice = if uuid || net || rng.chance(1, 2) { 12 } else { 15 }; }
            match choice {
                0 => Op::Create(w, false),
                1 => Op::Create(w, true),
                2 => Op::SetP(w, k, Some(small(rng))),
                3 => Op::SetR(w, k, Some((pick_ent(rng, h, w), pick_ent(rng, h, w)))),
                4 => Op::SetE(w, k, Some(match rng.below(5) { 0 => EV::Nil, 1 => EV::Val(small(rng)), 2 => EV::One(k), _ => EV::One(pick_ent(rng, h, w)) })),
                5 => match rng.below(3) { 0 => Op::SetP(w, k, None), 1 => Op::SetR(w, k, None), _ => Op::SetE(w, k, None) },
                6 => {
                    if uuid && !rng.chance(1, 12) { w = 0; }
                    if rng.chance(1, 4) { Op::MarkLazy(w, pick_ent(rng, h, w)) } else { Op::Mark(w, pick_ent(rng, h, w)) }
                }
                7 => Op::DelNow(w, k),
                8 => Op::DelAtomic(w, k),
                9 => {
                    let c = rng.range(0, 3) as usize;
                    let mut ks: Vec<usize> = (0..c).map(|_| pick_ent(rng, h, w)).collect();
                    if c >= 2 && rng.chance(1, 3) { ks[c - 1] = ks[0]; }
                    Op::DelBatch(w, ks)
                }
                10 => Op::Maintain(w),
                11 if det && rng.chance(1, 2) => { pending.push_back(Op::AllocMaintain(w)); pending.push_back(Op::Mark(w, k)); Op::AllocReset(w) }
                11 => Op::AllocMaintain(w),
                12 => Op::Serialize(w, false),
                13 => {
                    if uuid && !rng.chance(1, 12) { w = 0; }
                    // (a sixth of the recursive saves right behind a failed recursive save in a throw-away world)
                    if rng.chance(1, 6) { pending.push_back(Op::Serialize(w, true)); Op::ScratchFailedSave } else { Op::Serialize(w, true) }
                }
                14 => {
                    // repeated loads of the same slot are the interesting ones
                    if let (Some(prev), true) = (&last_load, rng.chance(3, 10)) { prev.clone() }
                    else {
                        let ns = h.runner.nslots();
                        let s = if ns > 0 && rng.chance(1, 2) { ns - 1 } else { rng.below(ns.max(1) as u64) as usize };
                        Op::Deserialize(w, s)
                    }
                }
                15 => {
                    if let (Some(prev @ Op::Load(..)), true) = (&last_load, rng.chance(1, 5)) { prev.clone() }
                    else { let idx = h.runner.idx_hint(w); Op::Load(w, gen_load_recs(rng, idx)) }
                }
                _ => { let rec = rng.chance(1, 2); if uuid && rec { w = 0; } Op::Roundtrip(w, rec) }
            }
        };
        let res = h.step(&op, out);
        count += 1;
        let w = match &op {
            Op::Create(w, _) | Op::SetP(w, ..) | Op::SetR(w, ..) | Op::SetE(w, ..) | Op::Mark(w, _) | Op::MarkLazy(w, _) | Op::DelNow(w, _)
            | Op::DelBatch(w, _) | Op::DelAtomic(w, _) | Op::Maintain(w) | Op::AllocMaintain(w) | Op::AllocReset(w) | Op::Serialize(w, _)
            | Op::Deserialize(w, _) | Op::Load(w, _) | Op::Roundtrip(w, _) | Op::Dump(w) => *w,
            Op::Cfg { .. } | Op::UnitRoundtrip | Op::ScratchFailedSave => 0,
        };
        let quiet = matches!(op, Op::Serialize(_, false) | Op::Roundtrip(..) | Op::Cfg { .. } | Op::Dump(_) | Op::ScratchFailedSave);
        if !quiet && res != "skip" {
            h.step(&Op::Dump(w), out);
        }
        if let Op::Deserialize(..) | Op::Load(..) = op {
            if res.starts_with("ok") {
                let nnew = res.split_whitespace().count() - 2;
                // delete loaded entities, then load the same data again (stale allocator mappings)
                if nnew > 0 && pending.is_empty() && rng.chance(3, 10) {
                    let n = h.runner.log_len(w);
                    let victims = rng.range(1, nnew.min(2) as u64) as usize;
                    for v in 0..victims {
                        let k = n - 1 - v;
                        pending.push_back(match rng.below(3) { 0 => Op::DelAtomic(w, k), _ => Op::DelNow(w, k) });
                    }
                    if rng.chance(2, 3) { pending.push_back(Op::Maintain(w)); }
                    if rng.chance(1, 4) { pending.push_back(Op::AllocMaintain(w)); }
                    pending.push_back(op.clone());
                }
                last_load = Some(op.clone());
            }
        }
    }
}

// ------------------------------------------------------------------------------------------

fn flush(out: &mut String) {
    let so = std::io::stdout();
    let mut l = so.lock();
    l.write_all(out.as_bytes()).unwrap();
    out.clear();
}

fn read_scripts(path: &str) -> Vec<(String, Vec<Op>)> {
    let text = std::fs::read_to_string(path).unwrap();
    let mut res: Vec<(String, Vec<Op>)> = Vec::new();
    for line in text.lines() {
        let line = line.trim();
        if line.is_empty() || line.starts_with('#') || line.starts_with("domain") { continue; }
        if let Some(id) = line.strip_prefix("case ") {
            res.push((id.trim().to_string(), Vec::new()));
        } else {
            let op = parse_op(line).unwrap_or_else(|| {
                eprintln!("h_saveload: bad op line: {}", line);
                panic!("bad op line: {}", line)
            });
            if res.is_empty() { res.push(("anon".into(), Vec::new())); }
            res.last_mut().unwrap().1.push(op);
        }
    }
    res
}

fn main() {
    if std::env::var("VH_PANIC_MSG").is_err() {
        std::panic::set_hook(Box::new(|_| {})); // panics are results, not noise (VH_PANIC_MSG=1 shows them)
    }
    let args: Vec<String> = std::env::args().collect();
    let show_text = std::env::var("VH_TEXT").map(|v| v == "1").unwrap_or(false);
    let mut out = String::new();
    out.push_str("domain saveload\n");
    flush(&mut out); // the watchdog may have to write before the next regular flush
    wd_start();
    match args.get(1).map(|s| s.as_str()) {
        Some("run") if args.len() >= 3 => {
            for (id, ops) in read_scripts(&args[2]) {
                writeln!(out, "case {}", id).unwrap();
                wd_case(&id);
                let mut h = Harness::new(show_text);
                for op in &ops { h.step(op, &mut out); }
                if out.len() > 1 << 16 { flush(&mut out); }
            }
        }
        Some("gen") if args.len() >= 5 => {
            let seed: u64 = args[2].parse().unwrap();
            let cases: usize = args[3].parse().unwrap();
            let maxlen: usize = args[4].parse().unwrap();
            let mode = args.get(5).map(|s| s.as_str()).unwrap_or("mix");
            if !matches!(mode, "rt" | "hist" | "mix" | "det") {
                eprintln!("h_saveload: unknown kind {}", mode);
                std::process::exit(2);
            }
            let mut master = Rng::new(seed);
            // VH_REVERSE=1: the same cases, executed in reverse order (C20: a case must not depend on the worlds before it)
            let mut order: Vec<(usize, u64)> = (0..cases).map(|c| (c, master.next())).collect();
            if std::env::var("VH_REVERSE").map(|v| v == "1").unwrap_or(false) { order.reverse(); }
            for (c, sub) in order {
                let mut rng = Rng::new(sub);
                let rt = match mode { "rt" => true, "hist" | "det" => false, _ => rng.chance(2, 5) };
                writeln!(out, "case g{}-{}", c, sub).unwrap();
                wd_case(&format!("g{}-{}", c, sub));
                let mut h = Harness::new(show_text);
                if rt {
                    for op in gen_rt(&mut rng) { h.step(&op, &mut out); }
                } else {
                    gen_hist(&mut rng, maxlen, &mut h, &mut out, mode == "det");
                }
                if out.len() > 1 << 16 { flush(&mut out); }
            }
        }
        _ => {
            eprintln!("usage: h_saveload run <file> | gen <seed> <cases> <maxlen> [rt|hist|mix|det]");
            std::process::exit(2);
        }
    }
    flush(&mut out);
}
