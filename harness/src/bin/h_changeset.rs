//! h_changeset: transcripts of the real `specs::ChangeSet` (property C16).
//!
//!   h_changeset gen <seed> <cases> <maxlen> [live|stale]   seeded random scripts
//!   h_changeset run <file>                                  execute the scripts in <file>
//!
//! `live`  (default): pairs only name handles that are alive, and a set never receives two handles
//!         with one index and different generations (the hypothesis of the per-entity reading).
//! `stale`: pairs name any logged handle, dead ones included, so that a set deliberately receives
//!         handles that share an index and differ in generation.
//!
//! Script lines (`op => result`; results ignored on input). `@k` = k-th logged handle modulo the log
//! size (a pair whose handle cannot be resolved because the log is empty is skipped).
//! `<amt>` = `-` (empty) or comma separated integers. `<kinds>` ⊆ `d v e` in this order:
//! `d` DenseVecStorage component, `v` VecStorage component, `e` the entities resource.
//!
//!   create                      => i:g          new entity, handle logged
//!   skip <k>                    => ok           k entities created, not logged (sparse indices)
//!   del @h                      => ok|err|skip  delete_entity + maintain
//!   ins d|v @h <val>            => ok|stale|skip
//!   rem d|v @h                  => <val>|none|skip
//!   cs_new                      => ok ! <destroyed…>          current set replaced by ChangeSet::new()
//!   cs_from @h:<amt> …          => ok ! <destroyed…>          current set replaced by collect()
//!   cs_add @h <amt>             => ok|skip !
//!   cs_extend @h:<amt> …        => ok !
//!   cs_clear                    => ok ! <destroyed…>
//!   cs_clear_fault <n>          => panic|ok ! <destroyed…>    `clear()` while the n-th destructor run of the op panics
//!                                                             (caught): every amount destroyed once, the set is empty
//!   cs_join_shared [lend] <kinds>          => <items> | <dumps> !
//!   cs_join_mut [lend] <marker> <kinds>    => <items> | <dumps> !     every visited amount += [marker]
//!   cs_consume [lend] all|<n> <kinds>      => <items> | <dumps> ! <destroyed…>   by-value join, ≤ n items
//!   end                         => ok ! <destroyed…>          (emitted by the harness: drop of the set)
//!
//! <items> = `none` or items separated by `;`, an item = `<index> <amt> <component of each kind>`
//! (entity printed as `i:g`); the index comes from a full `BitSet` that is the first join member.
//! <dumps> = per kind `| d i=v …`, `| v i=v …`, `| e i:g …`: the content of each joined storage as
//! seen by a separate join, so the monitor can check every item from the transcript alone.
//! After `!`: the payload of every amount whose destructor ran during the op, in order.
//!
//! Amounts are tokens into a side table (`Amount(usize)`, `+=` = concatenation of payloads); the
//! token has no heap ownership, so even a faulty double move-out is observed instead of crashing.
use specs::prelude::*;
use specs::storage::{DenseVecStorage, VecStorage};
use specs::ChangeSet;
use std::cell::RefCell;
use std::collections::HashMap;
use std::io::Write as _;
use std::ops::AddAssign;
use std::panic::{catch_unwind, AssertUnwindSafe};
use vh::rng::Rng;

// ------------------------------------------------------------------------------------------
// Instrumented amount

#[derive(Clone, Copy, PartialEq)]
enum St {
    Live,
    Merged,
    Yielded,
    Gone,
}
struct Slot {
    payload: Vec<i64>,
    st: St,
    /// this amount is the result of a `+=` (concatenation is associative, so a re-grouping such as x + (d1 + d2)
    /// instead of (x + d1) + d2 would not show in the payload: it is flagged when a COMBINED amount is added)
    combined: bool,
}
thread_local! {
    static TABLE: RefCell<Vec<Slot>> = RefCell::new(Vec::new());
    static DROPS: RefCell<Vec<Vec<i64>>> = RefCell::new(Vec::new());
    static REGROUPED: std::cell::Cell<bool> = std::cell::Cell::new(false);
    /// `cs_clear_fault n`: the n-th destruction of a live amount from now on panics (once)
    static FAULT_AT: std::cell::Cell<Option<usize>> = std::cell::Cell::new(None);
}

pub struct Amount(usize);

impl Amount {
    fn new(v: Vec<i64>) -> Amount {
        TABLE.with(|t| {
            let mut t = t.borrow_mut();
            t.push(Slot { payload: v, st: St::Live, combined: false });
            Amount(t.len() - 1)
        })
    }
    fn payload(&self) -> Vec<i64> {
        TABLE.with(|t| t.borrow()[self.0].payload.clone())
    }
    /// The harness received this amount by value and is done with it: not a destruction by the set.
    fn release(self) {
        TABLE.with(|t| t.borrow_mut()[self.0].st = St::Yielded);
    }
}
impl AddAssign for Amount {
    fn add_assign(&mut self, rhs: Amount) {
        TABLE.with(|t| {
            let mut t = t.borrow_mut();
            let p = std::mem::take(&mut t[rhs.0].payload);
            if t[rhs.0].combined { REGROUPED.with(|r| r.set(true)); }
            t[rhs.0].st = St::Merged;
            t[self.0].payload.extend(p);
            t[self.0].combined = true;
        });
    }
}
impl Drop for Amount {
    fn drop(&mut self) {
        TABLE.with(|t| {
            let mut t = t.borrow_mut();
            let s = &mut t[self.0];
            match s.st {
                St::Merged | St::Yielded => s.st = St::Gone,
                // a live amount is destroyed; a second destructor run on the same token is logged too
                St::Live | St::Gone => {
                    let p = s.payload.clone();
                    s.st = St::Gone;
                    DROPS.with(|d| d.borrow_mut().push(p));
                }
            }
        });
        // (outside the table borrow) an armed fault fires in the destructor itself, like a user type whose `Drop` panics
        let fire = FAULT_AT.with(|f| match f.get() {
            Some(1) => { f.set(None); true }
            Some(n) => { f.set(Some(n - 1)); false }
            None => false,
        });
        if fire && !std::thread::panicking() { panic!("verif: destructor of an amount panics"); }
    }
}
fn drops_take() -> Vec<Vec<i64>> {
    DROPS.with(|d| std::mem::take(&mut *d.borrow_mut()))
}
fn table_reset() {
    TABLE.with(|t| t.borrow_mut().clear());
    drops_take();
}

// ------------------------------------------------------------------------------------------
// Components

pub struct CompD(i64);
impl Component for CompD {
    type Storage = DenseVecStorage<Self>;
}
pub struct CompV(i64);
impl Component for CompV {
    type Storage = VecStorage<Self>;
}

trait Desc {
    fn desc(&self) -> String;
}
impl Desc for u32 {
    fn desc(&self) -> String {
        String::new()
    }
}
impl<'a> Desc for &'a CompD {
    fn desc(&self) -> String {
        self.0.to_string()
    }
}
impl<'a> Desc for &'a CompV {
    fn desc(&self) -> String {
        self.0.to_string()
    }
}
impl Desc for Entity {
    fn desc(&self) -> String {
        show_ent(*self)
    }
}
impl<A: Desc> Desc for (A,) {
    fn desc(&self) -> String {
        self.0.desc()
    }
}
impl<A: Desc, B: Desc> Desc for (A, B) {
    fn desc(&self) -> String {
        format!("{} {}", self.0.desc(), self.1.desc())
    }
}
impl<A: Desc, B: Desc, C: Desc> Desc for (A, B, C) {
    fn desc(&self) -> String {
        format!("{} {} {}", self.0.desc(), self.1.desc(), self.2.desc())
    }
}

fn show_ent(e: Entity) -> String {
    format!("{}:{}", e.id(), e.gen().id())
}
fn show_amt(v: &[i64]) -> String {
    if v.is_empty() {
        "-".to_string()
    } else {
        v.iter().map(|x| x.to_string()).collect::<Vec<_>>().join(",")
    }
}
fn parse_amt(s: &str) -> Option<Vec<i64>> {
    if s == "-" {
        return Some(vec![]);
    }
    s.split(',').map(|t| t.parse::<i64>().ok()).collect()
}

// ------------------------------------------------------------------------------------------
// Ops

#[derive(Clone, Debug)]
enum Op {
    Create,
    Skip(usize),
    Del(usize),
    Ins(char, usize, i64),
    Rem(char, usize),
    CsNew,
    CsFrom(Vec<(usize, Vec<i64>)>),
    CsAdd(usize, Vec<i64>),
    CsExtend(Vec<(usize, Vec<i64>)>),
    CsClear,
    CsClearFault(usize),
    JoinShared(bool, [bool; 3]),
    JoinMut(bool, i64, [bool; 3]),
    Consume(bool, Option<usize>, [bool; 3]),
}

fn show_kinds(k: &[bool; 3]) -> String {
    let mut s = String::new();
    for (i, c) in ["d", "v", "e"].iter().enumerate() {
        if k[i] {
            s.push(' ');
            s.push_str(c);
        }
    }
    s
}
fn show_pairs(ps: &[(usize, Vec<i64>)]) -> String {
    ps.iter().map(|(h, a)| format!(" @{}:{}", h, show_amt(a))).collect()
}
fn show_op(op: &Op) -> String {
    let l = |b: &bool| if *b { " lend" } else { "" };
    match op {
        Op::Create => "create".into(),
        Op::Skip(k) => format!("skip {}", k),
        Op::Del(h) => format!("del @{}", h),
        Op::Ins(k, h, v) => format!("ins {} @{} {}", k, h, v),
        Op::Rem(k, h) => format!("rem {} @{}", k, h),
        Op::CsNew => "cs_new".into(),
        Op::CsFrom(ps) => format!("cs_from{}", show_pairs(ps)),
        Op::CsAdd(h, a) => format!("cs_add @{} {}", h, show_amt(a)),
        Op::CsExtend(ps) => format!("cs_extend{}", show_pairs(ps)),
        Op::CsClear => "cs_clear".into(),
        Op::CsClearFault(n) => format!("cs_clear_fault {}", n),
        Op::JoinShared(lend, k) => format!("cs_join_shared{}{}", l(lend), show_kinds(k)),
        Op::JoinMut(lend, m, k) => format!("cs_join_mut{} {}{}", l(lend), m, show_kinds(k)),
        Op::Consume(lend, n, k) => format!(
            "cs_consume{} {}{}",
            l(lend),
            n.map(|n| n.to_string()).unwrap_or_else(|| "all".into()),
            show_kinds(k)
        ),
    }
}

fn parse_slot(s: &str) -> Option<usize> {
    s.strip_prefix('@')?.parse().ok()
}
fn parse_pair(s: &str) -> Option<(usize, Vec<i64>)> {
    let (h, a) = s.split_once(':')?;
    Some((parse_slot(h)?, parse_amt(a)?))
}
fn parse_kinds(ts: &[&str]) -> Option<[bool; 3]> {
    let mut k = [false; 3];
    for t in ts {
        match *t {
            "d" => k[0] = true,
            "v" => k[1] = true,
            "e" => k[2] = true,
            _ => return None,
        }
    }
    Some(k)
}
fn parse_op(line: &str) -> Option<Op> {
    let l = line.split(" => ").next().unwrap().trim();
    let ts: Vec<&str> = l.split_whitespace().collect();
    let (&name, mut rest) = ts.split_first()?;
    let lend = rest.first() == Some(&"lend");
    if lend {
        rest = &rest[1..];
    }
    Some(match name {
        "create" => Op::Create,
        "skip" => Op::Skip(rest.first()?.parse().ok()?),
        "del" => Op::Del(parse_slot(rest.first()?)?),
        "ins" => Op::Ins(rest.first()?.chars().next()?, parse_slot(rest.get(1)?)?, rest.get(2)?.parse().ok()?),
        "rem" => Op::Rem(rest.first()?.chars().next()?, parse_slot(rest.get(1)?)?),
        "cs_new" => Op::CsNew,
        "cs_from" => Op::CsFrom(rest.iter().map(|t| parse_pair(t)).collect::<Option<Vec<_>>>()?),
        "cs_add" => Op::CsAdd(parse_slot(rest.first()?)?, parse_amt(rest.get(1)?)?),
        "cs_extend" => Op::CsExtend(rest.iter().map(|t| parse_pair(t)).collect::<Option<Vec<_>>>()?),
        "cs_clear" => Op::CsClear,
        "cs_clear_fault" => Op::CsClearFault(ts.get(1)?.parse().ok()?),
        "cs_join_shared" => Op::JoinShared(lend, parse_kinds(rest)?),
        "cs_join_mut" => Op::JoinMut(lend, rest.first()?.parse().ok()?, parse_kinds(&rest[1..])?),
        "cs_consume" => {
            let n = if *rest.first()? == "all" { None } else { Some(rest.first()?.parse().ok()?) };
            Op::Consume(lend, n, parse_kinds(&rest[1..])?)
        }
        _ => return None,
    })
}

// ------------------------------------------------------------------------------------------
// Executor

struct Exec {
    world: World,
    log: Vec<Entity>,
    created: u32,
    cs: ChangeSet<Amount>,
}

/// Runs `$body` with `$o` bound to the join member(s) for the chosen kinds.
macro_rules! with_others {
    ($k:expr, $ds:ident, $vs:ident, $en:ident, $all:ident, $o:ident => $body:expr) => {
        match ($k[0], $k[1], $k[2]) {
            (false, false, false) => {
                let $o = &$all;
                $body
            }
            (true, false, false) => {
                let $o = (&$ds,);
                $body
            }
            (false, true, false) => {
                let $o = (&$vs,);
                $body
            }
            (false, false, true) => {
                let $o = (&*$en,);
                $body
            }
            (true, true, false) => {
                let $o = (&$ds, &$vs);
                $body
            }
            (true, false, true) => {
                let $o = (&$ds, &*$en);
                $body
            }
            (false, true, true) => {
                let $o = (&$vs, &*$en);
                $body
            }
            (true, true, true) => {
                let $o = (&$ds, &$vs, &*$en);
                $body
            }
        }
    };
}

type Item = (u32, Vec<i64>, String);

fn show_items(items: &[Item]) -> String {
    if items.is_empty() {
        return "none".into();
    }
    items
        .iter()
        .map(|(i, a, o)| {
            let mut s = format!("{} {}", i, show_amt(a));
            if !o.is_empty() {
                s.push(' ');
                s.push_str(o);
            }
            s
        })
        .collect::<Vec<_>>()
        .join(" ; ")
}

impl Exec {
    fn new() -> Exec {
        let mut world = World::new();
        world.register::<CompD>();
        world.register::<CompV>();
        Exec { world, log: Vec::new(), created: 0, cs: ChangeSet::new() }
    }
    fn resolve(&self, h: usize) -> Option<Entity> {
        if self.log.is_empty() {
            None
        } else {
            Some(self.log[h % self.log.len()])
        }
    }
    fn all_mask(&self) -> BitSet {
        let mut b = BitSet::new();
        for i in 0..=self.created {
            b.add(i);
        }
        b
    }
    fn pairs(&self, ps: &[(usize, Vec<i64>)]) -> Vec<(Entity, Amount)> {
        ps.iter().filter_map(|(h, a)| self.resolve(*h).map(|e| (e, Amount::new(a.clone())))).collect()
    }
    fn dumps(&self, k: &[bool; 3]) -> String {
        let all = self.all_mask();
        let mut s = String::new();
        if k[0] {
            s.push_str(" | d");
            let st = self.world.read_storage::<CompD>();
            for (i, c) in (&all, &st).join() {
                s.push_str(&format!(" {}={}", i, c.0));
            }
        }
        if k[1] {
            s.push_str(" | v");
            let st = self.world.read_storage::<CompV>();
            for (i, c) in (&all, &st).join() {
                s.push_str(&format!(" {}={}", i, c.0));
            }
        }
        if k[2] {
            s.push_str(" | e");
            let en = self.world.entities();
            for e in (&*en).join() {
                s.push_str(&format!(" {}", show_ent(e)));
            }
        }
        s
    }

    fn step_inner(&mut self, op: &Op) -> String {
        match op {
            Op::Create => {
                let e = self.world.create_entity().build();
                self.created += 1;
                self.log.push(e);
                show_ent(e)
            }
            Op::Skip(k) => {
                for _ in 0..*k {
                    self.world.create_entity().build();
                    self.created += 1;
                }
                "ok".into()
            }
            Op::Del(h) => match self.resolve(*h) {
                None => "skip".into(),
                Some(e) => {
                    let r = self.world.delete_entity(e);
                    self.world.maintain();
                    if r.is_ok() { "ok".into() } else { "err".into() }
                }
            },
            Op::Ins(k, h, v) => match self.resolve(*h) {
                None => "skip".into(),
                Some(e) => {
                    let ok = if *k == 'd' {
                        self.world.write_storage::<CompD>().insert(e, CompD(*v)).is_ok()
                    } else {
                        self.world.write_storage::<CompV>().insert(e, CompV(*v)).is_ok()
                    };
                    if ok { "ok".into() } else { "stale".into() }
                }
            },
            Op::Rem(k, h) => match self.resolve(*h) {
                None => "skip".into(),
                Some(e) => {
                    let r = if *k == 'd' {
                        self.world.write_storage::<CompD>().remove(e).map(|c| c.0)
                    } else {
                        self.world.write_storage::<CompV>().remove(e).map(|c| c.0)
                    };
                    r.map(|v| v.to_string()).unwrap_or_else(|| "none".into())
                }
            },
            Op::CsNew => {
                self.cs = ChangeSet::new();
                "ok".into()
            }
            Op::CsFrom(ps) => {
                let pairs = self.pairs(ps);
                // the source is not always an exact-size iterator: a join or a generator gives the hint `(0, None)`
                let k = flavour(&pairs);
                let new: ChangeSet<Amount> = flavoured(pairs, k).collect();
                self.cs = new;
                "ok".into()
            }
            Op::CsAdd(h, a) => match self.resolve(*h) {
                None => "skip".into(),
                Some(e) => {
                    self.cs.add(e, Amount::new(a.clone()));
                    "ok".into()
                }
            },
            Op::CsExtend(ps) => {
                let pairs = self.pairs(ps);
                let k = flavour(&pairs);
                self.cs.extend(flavoured(pairs, k));
                "ok".into()
            }
            Op::CsClear => {
                self.cs.clear();
                "ok".into()
            }
            Op::CsClearFault(n) => {
                FAULT_AT.with(|f| f.set(Some((*n).max(1))));
                let r = catch_unwind(AssertUnwindSafe(|| self.cs.clear()));
                FAULT_AT.with(|f| f.set(None));
                if r.is_err() { "panic".into() } else { "ok".into() }
            }
            Op::JoinShared(lend, k) => {
                let all = self.all_mask();
                let ds = self.world.read_storage::<CompD>();
                let vs = self.world.read_storage::<CompV>();
                let en = self.world.entities();
                let cs = &self.cs;
                let mut items: Vec<Item> = Vec::new();
                if *lend {
                    with_others!(k, ds, vs, en, all, o => {
                        let mut it = (&all, cs, o).lend_join();
                        while let Some((i, a, x)) = it.next() {
                            items.push((i, a.payload(), x.desc()));
                        }
                    });
                } else {
                    with_others!(k, ds, vs, en, all, o => {
                        for (i, a, x) in (&all, cs, o).join() {
                            items.push((i, a.payload(), x.desc()));
                        }
                    });
                }
                drop((ds, vs, en));
                format!("{}{}", show_items(&items), self.dumps(k))
            }
            Op::JoinMut(lend, marker, k) => {
                let all = self.all_mask();
                let ds = self.world.read_storage::<CompD>();
                let vs = self.world.read_storage::<CompV>();
                let en = self.world.entities();
                let cs = &mut self.cs;
                let mut items: Vec<Item> = Vec::new();
                if *lend {
                    with_others!(k, ds, vs, en, all, o => {
                        let mut it = (&all, cs, o).lend_join();
                        while let Some((i, a, x)) = it.next() {
                            items.push((i, a.payload(), x.desc()));
                            *a += Amount::new(vec![*marker]);
                        }
                    });
                } else {
                    with_others!(k, ds, vs, en, all, o => {
                        for (i, a, x) in (&all, cs, o).join() {
                            items.push((i, a.payload(), x.desc()));
                            *a += Amount::new(vec![*marker]);
                        }
                    });
                }
                drop((ds, vs, en));
                format!("{}{}", show_items(&items), self.dumps(k))
            }
            Op::Consume(lend, n, k) => {
                let all = self.all_mask();
                let cs = std::mem::take(&mut self.cs);
                let limit = n.unwrap_or(usize::MAX);
                let mut items: Vec<Item> = Vec::new();
                {
                    let ds = self.world.read_storage::<CompD>();
                    let vs = self.world.read_storage::<CompV>();
                    let en = self.world.entities();
                    if *lend {
                        with_others!(k, ds, vs, en, all, o => {
                            let mut it = (&all, cs, o).lend_join();
                            while items.len() < limit {
                                match it.next() {
                                    Some((i, a, x)) => {
                                        items.push((i, a.payload(), x.desc()));
                                        a.release();
                                    }
                                    None => break,
                                }
                            }
                            drop(it); // the iterator owns mask and storage: the remainder is destroyed here
                        });
                    } else {
                        with_others!(k, ds, vs, en, all, o => {
                            let mut it = (&all, cs, o).join();
                            while items.len() < limit {
                                match it.next() {
                                    Some((i, a, x)) => {
                                        items.push((i, a.payload(), x.desc()));
                                        a.release();
                                    }
                                    None => break,
                                }
                            }
                            drop(it);
                        });
                    }
                }
                format!("{}{}", show_items(&items), self.dumps(k))
            }
        }
    }

    fn step(&mut self, op: &Op, out: &mut String) {
        // make the op visible before it runs: if the process aborts inside it (a panic while unwinding), the
        // transcript ends with this line and the check can rebuild the failing script from it
        out.push_str(&show_op(op));
        flush(out);
        let r = catch_unwind(AssertUnwindSafe(|| self.step_inner(op)));
        let mut res = r.unwrap_or_else(|_| "panic".into());
        if REGROUPED.with(|r| r.replace(false)) { res = format!("regrouped {}", res); }
        let cs_op = !matches!(op, Op::Create | Op::Skip(_) | Op::Del(_) | Op::Ins(..) | Op::Rem(..));
        let drops = drops_take();
        out.push_str(" => ");
        out.push_str(&res);
        if cs_op {
            out.push_str(" !");
            for d in &drops {
                out.push(' ');
                out.push_str(&show_amt(d));
            }
        }
        out.push('\n');
    }

    fn finish(self, out: &mut String) {
        let Exec { world, cs, .. } = self;
        let r = catch_unwind(AssertUnwindSafe(move || drop(cs)));
        let drops = drops_take();
        out.push_str(if r.is_ok() { "end => ok !" } else { "end => panic !" });
        for d in &drops {
            out.push(' ');
            out.push_str(&show_amt(d));
        }
        out.push('\n');
        drop(world);
    }
}

// ------------------------------------------------------------------------------------------
// Generator

struct Gen {
    stale: bool,
    fault: bool,
    next_val: i64,
    /// generation under which an index entered the current set (live mode keeps them consistent)
    cs_gen: HashMap<u32, i32>,
    /// ops queued behind the current one (components for a fresh entity)
    pending: Vec<Op>,
}

impl Gen {
    fn amount(&mut self, rng: &mut Rng) -> Vec<i64> {
        let n = match rng.below(10) {
            0 => 0,
            1..=6 => 1,
            7 | 8 => 2,
            _ => 3,
        };
        (0..n)
            .map(|_| {
                self.next_val += 1;
                self.next_val
            })
            .collect()
    }
    /// A handle slot for a pair; `None` when no admissible handle exists.
    fn handle(&mut self, rng: &mut Rng, ex: &Exec, prefer_repeat: bool) -> Option<usize> {
        if ex.log.is_empty() {
            return None;
        }
        let cands: Vec<usize> = (0..ex.log.len())
            .filter(|&k| {
                let e = ex.log[k];
                if self.stale {
                    return true;
                }
                ex.world.is_alive(e) && self.cs_gen.get(&e.id()).map(|g| *g == e.gen().id()).unwrap_or(true)
            })
            .collect();
        if cands.is_empty() {
            return None;
        }
        let in_set: Vec<usize> = cands.iter().cloned().filter(|&k| self.cs_gen.contains_key(&ex.log[k].id())).collect();
        let k = if prefer_repeat && !in_set.is_empty() && rng.chance(1, 2) { *rng.pick(&in_set) } else { *rng.pick(&cands) };
        let e = ex.log[k];
        self.cs_gen.entry(e.id()).or_insert(e.gen().id());
        // an equivalent slot number beyond the log size now and then (modulo resolution)
        Some(if rng.chance(1, 10) { k + ex.log.len() } else { k })
    }
    fn pairs(&mut self, rng: &mut Rng, ex: &Exec, max: u64) -> Vec<(usize, Vec<i64>)> {
        let n = rng.range(0, max);
        let mut v = Vec::new();
        for _ in 0..n {
            if let Some(h) = self.handle(rng, ex, true) {
                let a = self.amount(rng);
                v.push((h, a));
            }
        }
        v
    }
    fn kinds(&self, rng: &mut Rng) -> [bool; 3] {
        match rng.below(10) {
            0..=2 => [false, false, false],
            3 | 4 => [true, false, false],
            5 => [false, true, false],
            6 => [false, false, true],
            7 => [true, true, false],
            8 => [true, false, true],
            _ => [true, true, true],
        }
    }
    fn next_op(&mut self, rng: &mut Rng, ex: &Exec) -> Op {
        if let Some(op) = self.pending.pop() {
            return op;
        }
        let op = self.fresh_op(rng, ex);
        if let Op::Create = op {
            let h = ex.log.len();
            if rng.chance(3, 5) {
                self.pending.push(Op::Ins('d', h, rng.range(100, 999) as i64));
            }
            if rng.chance(2, 5) {
                self.pending.push(Op::Ins('v', h, rng.range(100, 999) as i64));
            }
        }
        op
    }
    fn fresh_op(&mut self, rng: &mut Rng, ex: &Exec) -> Op {
        if ex.log.len() < 2 {
            return Op::Create;
        }
        let any = |rng: &mut Rng| rng.below(ex.log.len() as u64) as usize;
        match rng.weighted(&[8, 2, 5, 9, 2, 1, 5, 12, 7, if self.fault { 8 } else { 2 }, 8, 5, 5]) {
            0 => Op::Create,
            1 => Op::Skip(*rng.pick(&[1usize, 2, 3, 30, 70, 300])),
            2 => {
                // live mode: do not delete an entity whose index is in the current set
                let k = any(rng);
                if !self.stale && self.cs_gen.contains_key(&ex.log[k].id()) { Op::Create } else { Op::Del(k) }
            }
            3 => Op::Ins(if rng.chance(1, 2) { 'd' } else { 'v' }, any(rng), rng.range(100, 999) as i64),
            4 => Op::Rem(if rng.chance(1, 2) { 'd' } else { 'v' }, any(rng)),
            5 => {
                self.cs_gen.clear();
                Op::CsNew
            }
            6 => {
                self.cs_gen.clear();
                // occasionally a long batch (the standard sorts change algorithm above 20 elements; growth of the dense vector)
                let max = if rng.chance(1, 6) { 70 } else { 8 };
                Op::CsFrom(self.pairs(rng, ex, max))
            }
            7 => match self.handle(rng, ex, true) {
                Some(h) => Op::CsAdd(h, self.amount(rng)),
                None => Op::Create,
            },
            8 => { let max = if rng.chance(1, 8) { 50 } else { 6 }; Op::CsExtend(self.pairs(rng, ex, max)) }
            9 => {
                self.cs_gen.clear();
                if self.fault && rng.chance(3, 4) { Op::CsClearFault(rng.range(1, 4) as usize) } else { Op::CsClear }
            }
            10 => Op::JoinShared(rng.chance(1, 3), self.kinds(rng)),
            11 => {
                self.next_val += 1;
                Op::JoinMut(rng.chance(1, 3), self.next_val, self.kinds(rng))
            }
            _ => {
                self.cs_gen.clear();
                let n = if rng.chance(2, 5) { None } else { Some(rng.below(4) as usize) };
                Op::Consume(rng.chance(1, 3), n, self.kinds(rng))
            }
        }
    }
}

fn run_random(rng: &mut Rng, len: usize, stale: bool, fault: bool, out: &mut String) {
    table_reset();
    let mut ex = Exec::new();
    let mut g = Gen { stale, fault, next_val: 0, cs_gen: HashMap::new(), pending: Vec::new() };
    for _ in 0..len {
        let op = g.next_op(rng, &ex);
        ex.step(&op, out);
    }
    ex.finish(out);
}

fn read_scripts(path: &str) -> Vec<(String, Vec<Op>)> {
    let text = std::fs::read_to_string(path).unwrap();
    let mut res: Vec<(String, Vec<Op>)> = Vec::new();
    for line in text.lines() {
        let line = line.trim();
        if line.is_empty() || line.starts_with('#') || line.starts_with("domain") || line.starts_with("end") {
            continue;
        }
        if let Some(id) = line.strip_prefix("case ") {
            res.push((id.trim().to_string(), Vec::new()));
        } else {
            let op = parse_op(line).unwrap_or_else(|| {
                eprintln!("bad op line: {}", line);
                std::process::exit(3)
            });
            if res.is_empty() {
                res.push(("anon".into(), Vec::new()));
            }
            res.last_mut().unwrap().1.push(op);
        }
    }
    res
}

fn flush(out: &mut String) {
    let so = std::io::stdout();
    let mut l = so.lock();
    l.write_all(out.as_bytes()).unwrap();
    l.flush().unwrap();
    out.clear();
}

/// Which kind of iterator hands the pairs to `collect` / `extend` (a function of the pairs, so that replays agree).
fn flavour(pairs: &[(Entity, Amount)]) -> usize {
    (pairs.len() + pairs.first().map(|p| p.0.id() as usize).unwrap_or(0)) % 3
}
/// 0: the vector's own iterator (exact size hint); 1: a generator (`(0, None)`, what a join iterator reports);
/// 2: a filtered iterator (`(0, Some(n))`).
fn flavoured<T: 'static>(v: Vec<T>, k: usize) -> Box<dyn Iterator<Item = T>> {
    match k {
        0 => Box::new(v.into_iter()),
        1 => { let mut it = v.into_iter(); Box::new(std::iter::from_fn(move || it.next())) }
        _ => Box::new(v.into_iter().filter(|_| true)),
    }
}

fn main() {
    std::panic::set_hook(Box::new(|_| {}));
    let args: Vec<String> = std::env::args().collect();
    let mut out = String::new();
    out.push_str("domain changeset\n");
    match args.get(1).map(|s| s.as_str()) {
        Some("gen") => {
            let seed: u64 = args[2].parse().unwrap();
            let cases: usize = args[3].parse().unwrap();
            let maxlen: usize = args[4].parse().unwrap();
            let stale = args.get(5).map(|s| s == "stale").unwrap_or(false);
            // `fault`: live scripts in which most `clear`s run while a destructor panics, and clears are more frequent
            let fault = args.get(5).map(|s| s == "fault").unwrap_or(false);
            let mut master = Rng::new(seed ^ if stale { 0x57a1e } else { 0xc5 });
            for c in 0..cases {
                let sub = master.next();
                let mut rng = Rng::new(sub);
                let len = rng.range(3, maxlen.max(3) as u64) as usize;
                out.push_str(&format!("case {}{}-{}\n", if stale { "t" } else { "g" }, c, sub));
                run_random(&mut rng, len, stale, fault, &mut out);
            }
        }
        Some("run") => {
            for (id, ops) in read_scripts(&args[2]) {
                out.push_str(&format!("case {}\n", id));
                table_reset();
                let mut ex = Exec::new();
                for op in &ops {
                    ex.step(op, &mut out);
                }
                ex.finish(&mut out);
            }
        }
        _ => {
            eprintln!("usage: h_changeset gen <seed> <cases> <maxlen> [live|stale] | run <file>");
            std::process::exit(2);
        }
    }
    flush(&mut out);
}
