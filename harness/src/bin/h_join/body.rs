// Shared body of the `h_join` / `h_join_h3` binaries (see main.rs of either for `if_h3!`).
// Transcript format: /verif/docs/PROTOCOL_join.md  (`domain join`).
//
//   h_join gen <seed> <cases> <class>     class = tiny|small|mid|big|raw|mix
//   h_join trees <seed> <cases>           every split tree of depth <= 4 for 3 par-capable shapes per case
//   h_join run <file>                     execute setup + op lines of a script
//   h_join shapes                         print the catalogue (sid | members | modes)

use hibitset::{BitSet, BitSetAnd, BitSetLike, BitSetNot, BitSetOr, BitSetXor};
use rayon::iter::ParallelIterator;
use specs::changeset::ChangeSet;
use specs::join::{Join, LendJoin, ParJoin};
use specs::prelude::{
    Builder, Component, DenseVecStorage, Entity, ReadStorage, ReaderId, VecStorage, World,
    WorldExt, WriteStorage,
};
use specs::storage::{
    BTreeStorage, ComponentEvent, DefaultVecStorage, DistinctStorage, FlaggedStorage,
    HashMapStorage, MaskedStorage, NullStorage, PairedStorageRead, PairedStorageWriteExclusive,
    PairedStorageWriteShared, RestrictedStorage, StorageEntry,
};
use std::collections::HashMap;
use std::fmt::Write as _;
use std::io::Write as _;
use std::panic::{catch_unwind, AssertUnwindSafe};
use std::sync::Mutex;
use vh::rng::Rng;

const MAXIDX: u32 = (1 << 24) - 1;
const MM: u128 = (1u128 << 61) - 1;
const KINDS: [&str; 16] = [
    "vec", "vec", "dense", "dense", "hash", "hash", "btree", "btree", "dvec", "dvec", "null",
    "null", "flagged", "flagged", "cs", "cs",
];

// ---------------------------------------------------------------------------------------------
// components
// ---------------------------------------------------------------------------------------------

/// home / value access shared by all component types (and by the plain i64 of change sets).
pub trait HV {
    fn home(&self) -> Option<u32>;
    fn val(&self) -> i64;
    fn inc(&mut self);
    fn mk(home: u32, val: i64) -> Self;
}

macro_rules! comp_hv {
    ($($n:ident : $st:ty;)*) => {$(
        #[derive(Clone, Copy, Debug, Default, PartialEq)]
        pub struct $n { pub home: u32, pub val: i64 }
        impl Component for $n { type Storage = $st; }
        impl HV for $n {
            fn home(&self) -> Option<u32> { Some(self.home) }
            fn val(&self) -> i64 { self.val }
            fn inc(&mut self) { self.val += 1; }
            fn mk(home: u32, val: i64) -> Self { $n { home, val } }
        }
    )*};
}
macro_rules! comp_null {
    ($($n:ident;)*) => {$(
        #[derive(Clone, Copy, Debug, Default, PartialEq)]
        pub struct $n;
        impl Component for $n { type Storage = NullStorage<$n>; }
        impl HV for $n {
            fn home(&self) -> Option<u32> { None }
            fn val(&self) -> i64 { 0 }
            fn inc(&mut self) {}
            fn mk(_home: u32, _val: i64) -> Self { $n }
        }
    )*};
}
comp_hv! {
    C0: VecStorage<C0>; C1: VecStorage<C1>;
    C2: DenseVecStorage<C2>; C3: DenseVecStorage<C3>;
    C4: HashMapStorage<C4>; C5: HashMapStorage<C5>;
    C6: BTreeStorage<C6>; C7: BTreeStorage<C7>;
    C8: DefaultVecStorage<C8>; C9: DefaultVecStorage<C9>;
    C12: FlaggedStorage<C12, VecStorage<C12>>;
    C13: FlaggedStorage<C13, DenseVecStorage<C13>>;
}
comp_null! { C10; C11; }
impl HV for i64 {
    fn home(&self) -> Option<u32> { None }
    fn val(&self) -> i64 { *self }
    fn inc(&mut self) { *self += 1; }
    fn mk(_home: u32, val: i64) -> Self { val }
}

/// run `$body` with the type alias `$C` bound to the component type of store `$k` (0..=13)
macro_rules! with_k {
    ($k:expr, $C:ident => $body:expr) => {
        match $k {
            0 => { type $C = C0; $body }
            1 => { type $C = C1; $body }
            2 => { type $C = C2; $body }
            3 => { type $C = C3; $body }
            4 => { type $C = C4; $body }
            5 => { type $C = C5; $body }
            6 => { type $C = C6; $body }
            7 => { type $C = C7; $body }
            8 => { type $C = C8; $body }
            9 => { type $C = C9; $body }
            10 => { type $C = C10; $body }
            11 => { type $C = C11; $body }
            12 => { type $C = C12; $body }
            13 => { type $C = C13; $body }
            _ => panic!("with_k: bad store index"),
        }
    };
}

// ---------------------------------------------------------------------------------------------
// item formatting: one trait over everything a join can yield
// ---------------------------------------------------------------------------------------------

pub trait It {
    /// index revealed by this component (home / entity id / bit-set index)
    fn reveal(&self) -> Option<u32>;
    /// print the component(s); `idx` is the item's index (for the `@home` check)
    fn put(&self, idx: Option<u32>, o: &mut String);
    /// increment every mutable component
    fn bump(&mut self);
}

#[inline]
fn put_v(v: i64, home: Option<u32>, idx: Option<u32>, o: &mut String) {
    let _ = write!(o, "{}", v);
    if let Some(h) = home {
        if idx != Some(h) {
            let _ = write!(o, "@{}", h);
        }
    }
}

macro_rules! it_vals {
    ($($t:ty),*) => {$(
        impl It for $t {
            fn reveal(&self) -> Option<u32> { self.home() }
            fn put(&self, idx: Option<u32>, o: &mut String) { put_v(self.val(), self.home(), idx, o) }
            fn bump(&mut self) {}
        }
        impl<'a> It for &'a $t {
            fn reveal(&self) -> Option<u32> { self.home() }
            fn put(&self, idx: Option<u32>, o: &mut String) { put_v(self.val(), self.home(), idx, o) }
            fn bump(&mut self) {}
        }
        impl<'a> It for &'a mut $t {
            fn reveal(&self) -> Option<u32> { self.home() }
            fn put(&self, idx: Option<u32>, o: &mut String) { put_v(self.val(), self.home(), idx, o) }
            fn bump(&mut self) { self.inc(); }
        }
    )*};
}
it_vals!(C0, C1, C2, C3, C4, C5, C6, C7, C8, C9, C10, C11, C12, C13, i64);

macro_rules! it_paired {
    ($($t:ty),*) => {$(
        impl<'a> It for PairedStorageRead<'a, $t> {
            fn reveal(&self) -> Option<u32> { self.get().home() }
            fn put(&self, idx: Option<u32>, o: &mut String) { let c = self.get(); put_v(c.val(), c.home(), idx, o) }
            fn bump(&mut self) {}
        }
        impl<'a> It for PairedStorageWriteShared<'a, $t> {
            fn reveal(&self) -> Option<u32> { self.get().home() }
            fn put(&self, idx: Option<u32>, o: &mut String) { let c = self.get(); put_v(c.val(), c.home(), idx, o) }
            fn bump(&mut self) { self.get_mut().inc(); }
        }
        impl<'a> It for PairedStorageWriteExclusive<'a, $t> {
            fn reveal(&self) -> Option<u32> { self.get().home() }
            fn put(&self, idx: Option<u32>, o: &mut String) { let c = self.get(); put_v(c.val(), c.home(), idx, o) }
            fn bump(&mut self) { self.get_mut().inc(); }
        }
        impl<'a, 'b> It for StorageEntry<'a, 'b, $t, shred::FetchMut<'b, MaskedStorage<$t>>> {
            fn reveal(&self) -> Option<u32> {
                match self { StorageEntry::Occupied(e) => e.get().home(), StorageEntry::Vacant(_) => None }
            }
            fn put(&self, idx: Option<u32>, o: &mut String) {
                match self {
                    StorageEntry::Occupied(e) => { o.push('O'); let c = e.get(); put_v(c.val(), c.home(), idx, o) }
                    StorageEntry::Vacant(_) => o.push('V'),
                }
            }
            fn bump(&mut self) {
                if let StorageEntry::Occupied(e) = self { e.get_mut().inc(); }
            }
        }
    )*};
}
it_paired!(C0, C1, C2, C3, C4, C5, C6, C7, C8, C9, C10, C11, C12, C13);

impl It for () {
    fn reveal(&self) -> Option<u32> { None }
    fn put(&self, _idx: Option<u32>, o: &mut String) { o.push('u') }
    fn bump(&mut self) {}
}
impl It for Entity {
    fn reveal(&self) -> Option<u32> { Some(self.id()) }
    fn put(&self, _idx: Option<u32>, o: &mut String) { let _ = write!(o, "E{}.{}", self.id(), self.gen().id()); }
    fn bump(&mut self) {}
}
impl It for u32 {
    fn reveal(&self) -> Option<u32> { Some(*self) }
    fn put(&self, _idx: Option<u32>, o: &mut String) { let _ = write!(o, "I{}", self); }
    fn bump(&mut self) {}
}
impl<T: It> It for Option<T> {
    fn reveal(&self) -> Option<u32> { self.as_ref().and_then(|c| c.reveal()) }
    fn put(&self, idx: Option<u32>, o: &mut String) {
        match self { None => o.push('N'), Some(c) => { o.push('S'); c.put(idx, o) } }
    }
    fn bump(&mut self) { if let Some(c) = self { c.bump() } }
}
macro_rules! it_tuple {
    ($($n:ident $i:tt),*) => {
        impl<$($n: It),*> It for ($($n,)*) {
            fn reveal(&self) -> Option<u32> {
                $( if let Some(i) = self.$i.reveal() { return Some(i); } )*
                None
            }
            fn put(&self, idx: Option<u32>, o: &mut String) {
                let mut first = true;
                $( if !first { o.push(','); } first = false; self.$i.put(idx, o); )*
                let _ = first;
            }
            fn bump(&mut self) { $( self.$i.bump(); )* }
        }
    };
}
it_tuple!(A 0);
it_tuple!(A 0, B 1);
it_tuple!(A 0, B 1, C 2);
it_tuple!(A 0, B 1, C 2, D 3);
it_tuple!(A 0, B 1, C 2, D 3, E 4);
it_tuple!(A 0, B 1, C 2, D 3, E 4, F 5);
it_tuple!(A 0, B 1, C 2, D 3, E 4, F 5, G 6);
it_tuple!(A 0, B 1, C 2, D 3, E 4, F 5, G 6, H 7);
it_tuple!(A 0, B 1, C 2, D 3, E 4, F 5, G 6, H 7, I 8);
it_tuple!(A 0, B 1, C 2, D 3, E 4, F 5, G 6, H 7, I 8, J 9);
it_tuple!(A 0, B 1, C 2, D 3, E 4, F 5, G 6, H 7, I 8, J 9, K 10);
it_tuple!(A 0, B 1, C 2, D 3, E 4, F 5, G 6, H 7, I 8, J 9, K 10, L 11);
it_tuple!(A 0, B 1, C 2, D 3, E 4, F 5, G 6, H 7, I 8, J 9, K 10, L 11, M 12);
it_tuple!(A 0, B 1, C 2, D 3, E 4, F 5, G 6, H 7, I 8, J 9, K 10, L 11, M 12, N 13);
it_tuple!(A 0, B 1, C 2, D 3, E 4, F 5, G 6, H 7, I 8, J 9, K 10, L 11, M 12, N 13, O 14);
it_tuple!(A 0, B 1, C 2, D 3, E 4, F 5, G 6, H 7, I 8, J 9, K 10, L 11, M 12, N 13, O 14, P 15);

/// accumulates ` idx:comps` tokens
pub struct Acc {
    pub n: usize,
    pub buf: String,
}
impl Acc {
    fn new() -> Self { Acc { n: 0, buf: String::with_capacity(256) } }
    /// `visit` of the protocol: format the item as read, then increment its mutable components
    #[inline]
    fn visit<T: It>(&mut self, item: &mut T) {
        let idx = item.reveal();
        self.buf.push(' ');
        match idx { Some(i) => { let _ = write!(self.buf, "{}", i); } None => self.buf.push('_') }
        self.buf.push(':');
        item.put(idx, &mut self.buf);
        item.bump();
        self.n += 1;
    }
    fn finish(self, out: &mut String) {
        let _ = write!(out, "{}", self.n);
        out.push_str(&self.buf);
    }
}
/// visit for the parallel modes: returns (index, `idx:comps`)
fn visit_par<T: It>(item: &mut T) -> (Option<u32>, String) {
    let idx = item.reveal();
    let mut s = String::with_capacity(24);
    match idx { Some(i) => { let _ = write!(s, "{}", i); } None => s.push('_') }
    s.push(':');
    item.put(idx, &mut s);
    item.bump();
    (idx, s)
}
fn spin_a_little() {
    let mut x = 0u64;
    for i in 0..400u64 { x = std::hint::black_box(x.wrapping_add(i)); }
    std::hint::black_box(x);
}
fn finish_par(mut v: Vec<(Option<u32>, String)>, out: &mut String) {
    v.sort_by_key(|t| t.0); // stable
    let _ = write!(out, "{}", v.len());
    for (_, s) in &v { out.push(' '); out.push_str(s); }
}
/// result token of one lendget probe
fn put_probe<T: It>(item: Option<T>, i: u32, out: &mut String) {
    match item {
        None => out.push_str(" none"),
        Some(it) => { out.push_str(" some:"); it.put(Some(i), out); }
    }
}

// ---------------------------------------------------------------------------------------------
// split trees
// ---------------------------------------------------------------------------------------------

pub enum Tree { L, S(Box<Tree>, Box<Tree>) }
/// preorder over {S,L}; past the end of the spec = leaf
fn parse_tree(s: &str) -> Tree {
    fn go(b: &[u8], p: &mut usize, depth: usize) -> Tree {
        if *p >= b.len() { return Tree::L; }
        let c = b[*p];
        *p += 1;
        if c == b'S' && depth < 62 {
            let l = go(b, p, depth + 1);
            let r = go(b, p, depth + 1);
            Tree::S(Box::new(l), Box::new(r))
        } else if c == b'S' {
            // deeper than a u64 path can address: consume the sub-spec, treat as leaf
            let _ = go(b, p, depth + 1);
            let _ = go(b, p, depth + 1);
            Tree::L
        } else { Tree::L }
    }
    let mut p = 0;
    go(s.as_bytes(), &mut p, 0)
}
/// `path`: turns from the root, most recent turn in the lowest bit (see par_join.rs verif_drive)
fn tree_choose(root: &Tree, depth: usize, path: u64) -> bool {
    let mut n = root;
    for j in (0..depth).rev() {
        match n {
            Tree::S(l, r) => n = if (path >> j) & 1 == 0 { l } else { r },
            Tree::L => return false,
        }
    }
    matches!(n, Tree::S(_, _))
}

// ---------------------------------------------------------------------------------------------
// world + setup
// ---------------------------------------------------------------------------------------------

#[derive(Clone, Default)]
pub struct Setup {
    pub ents: Vec<(u32, i32)>,          // alive (index, generation), ascending
    pub raised: Vec<(u32, i32)>,        // subset of `ents`: created atomically, not yet merged by `maintain()`
    pub killed: Vec<(u32, i32)>,        // subset of `ents`: `Entities::delete` called, deletion pending until `maintain()`
    pub stores: [Vec<(u32, i64)>; 16],  // ascending
    pub bits: [Vec<u32>; 4],            // ascending
}

pub struct H {
    pub world: World,
    pub cs14: ChangeSet<i64>,
    pub cs15: ChangeSet<i64>,
    pub b0: BitSet,
    pub b1: BitSet,
    pub b2: BitSet,
    pub b3: BitSet,
    pub empty: BitSet,
    pub handles: HashMap<(u32, i32), Entity>,
    pub r12: ReaderId<ComponentEvent>,
    pub r13: ReaderId<ComponentEvent>,
    pub n: u32,
}

impl Setup {
    /// drop entries of non-alive indices (cs: of indices without any handle), force null values to 0,
    /// sort + dedup
    fn normalise(&mut self) {
        self.ents.retain(|e| e.1 >= 1 && e.0 <= MAXIDX);
        self.ents.sort();
        self.ents.dedup_by_key(|e| e.0);
        let n = self.ents.last().map(|e| e.0 + 1).unwrap_or(0);
        let mut alive = vec![false; n as usize];
        for e in &self.ents { alive[e.0 as usize] = true; }
        // raised: must be alive with that generation. A raised handle of generation g >= 2 is always
        // constructible (index brought to g-1, deleted, popped from the free list by the atomic create).
        // Generation 1 means a never-used index: the atomic create only hands those out once the free
        // list is empty, in ascending order from the top -> only a contiguous top suffix of raised
        // generation-1 entities in a world without dead indices is constructible; others are demoted
        // to ordinary (merged) entities.
        {
            let mut gen_of = vec![0i32; n as usize];
            for e in &self.ents { gen_of[e.0 as usize] = e.1; }
            self.raised.retain(|e| e.0 < n && gen_of[e.0 as usize] == e.1);
            self.raised.sort();
            self.raised.dedup_by_key(|e| e.0);
            let no_dead = alive.iter().all(|&a| a);
            let mut is_r1 = vec![false; n as usize];
            for e in &self.raised { if e.1 == 1 { is_r1[e.0 as usize] = true; } }
            let mut top = n as usize;   // first index of the constructible suffix
            if no_dead { while top > 0 && is_r1[top - 1] { top -= 1; } }
            self.raised.retain(|e| e.1 >= 2 || (e.0 as usize) >= top);
            // killed: any alive (index, generation); may overlap `raised`
            self.killed.retain(|e| e.0 < n && gen_of[e.0 as usize] == e.1);
            self.killed.sort();
            self.killed.dedup_by_key(|e| e.0);
        }
        for k in 0..16 {
            let st = &mut self.stores[k];
            if k < 14 { st.retain(|e| e.0 < n && alive[e.0 as usize]); } else { st.retain(|e| e.0 < n); }
            if k == 10 || k == 11 { for e in st.iter_mut() { e.1 = 0; } }
            st.sort_by_key(|e| e.0);
            st.dedup_by_key(|e| e.0);
        }
        for b in 0..4 {
            let s = &mut self.bits[b];
            s.retain(|&i| i <= MAXIDX);
            s.sort();
            s.dedup();
        }
    }

    fn print(&self, out: &mut String) {
        if !self.ents.is_empty() {
            out.push_str("ents");
            let e = &self.ents;
            let mut i = 0;
            while i < e.len() {
                let mut j = i;
                while j + 1 < e.len() && e[j + 1].0 == e[j].0 + 1 && e[j + 1].1 == e[i].1 { j += 1; }
                if j == i { let _ = write!(out, " {}:{}", e[i].0, e[i].1); }
                else { let _ = write!(out, " {}-{}:{}", e[i].0, e[j].0, e[i].1); }
                i = j + 1;
            }
            out.push('\n');
        }
        if !self.raised.is_empty() {
            out.push_str("raised");
            let e = &self.raised;
            let mut i = 0;
            while i < e.len() {
                let mut j = i;
                while j + 1 < e.len() && e[j + 1].0 == e[j].0 + 1 && e[j + 1].1 == e[i].1 { j += 1; }
                if j == i { let _ = write!(out, " {}:{}", e[i].0, e[i].1); }
                else { let _ = write!(out, " {}-{}:{}", e[i].0, e[j].0, e[i].1); }
                i = j + 1;
            }
            out.push('\n');
        }
        if !self.killed.is_empty() {
            out.push_str("killed");
            let e = &self.killed;
            let mut i = 0;
            while i < e.len() {
                let mut j = i;
                while j + 1 < e.len() && e[j + 1].0 == e[j].0 + 1 && e[j + 1].1 == e[i].1 { j += 1; }
                if j == i { let _ = write!(out, " {}:{}", e[i].0, e[i].1); }
                else { let _ = write!(out, " {}-{}:{}", e[i].0, e[j].0, e[i].1); }
                i = j + 1;
            }
            out.push('\n');
        }
        for k in 0..16 {
            let s = &self.stores[k];
            // always printed, also when empty: the line tells the driver the store's kind
            let _ = write!(out, "store {} {}", k, KINDS[k]);
            let mut i = 0;
            while i < s.len() {
                let mut j = i;
                while j + 1 < s.len() && s[j + 1].0 == s[j].0 + 1 && s[j + 1].1 == s[j].1 + 1 { j += 1; }
                if j == i { let _ = write!(out, " {}:{}", s[i].0, s[i].1); }
                else { let _ = write!(out, " {}-{}:{}", s[i].0, s[j].0, s[i].1); }
                i = j + 1;
            }
            out.push('\n');
        }
        for b in 0..4 {
            let s = &self.bits[b];
            if s.is_empty() { continue; }
            let _ = write!(out, "bitset {}", b);
            let mut i = 0;
            while i < s.len() {
                let mut j = i;
                while j + 1 < s.len() && s[j + 1] == s[j] + 1 { j += 1; }
                if j == i { let _ = write!(out, " {}", s[i]); } else { let _ = write!(out, " {}-{}", s[i], s[j]); }
                i = j + 1;
            }
            out.push('\n');
        }
    }
}

/// Deterministic scrambling of the insertion order of a store's entries (a function of the setup only, so that a
/// replayed script builds exactly the same world).
fn scramble_key(k: usize, i: u32) -> u64 {
    let mut x = (i as u64 + 1).wrapping_mul(0x9E37_79B9_7F4A_7C15) ^ ((k as u64 + 1).wrapping_mul(0xD6E8_FEB8_6659_FD93));
    x ^= x >> 29; x = x.wrapping_mul(0xBF58_476D_1CE4_E5B9); x ^= x >> 32;
    x
}
fn scrambled(k: usize, items: &[(u32, i64)]) -> Vec<usize> {
    let mut idx: Vec<usize> = (0..items.len()).collect();
    idx.sort_by_key(|&j| scramble_key(k, items[j].0));
    idx
}

fn build_world(s: &Setup) -> H {
    let mut world = World::new();
    world.register::<C0>(); world.register::<C1>(); world.register::<C2>(); world.register::<C3>();
    world.register::<C4>(); world.register::<C5>(); world.register::<C6>(); world.register::<C7>();
    world.register::<C8>(); world.register::<C9>(); world.register::<C10>(); world.register::<C11>();
    world.register::<C12>(); world.register::<C13>();
    let r12 = world.write_storage::<C12>().register_reader();
    let r13 = world.write_storage::<C13>().register_reader();

    let n = s.ents.last().map(|e| e.0 + 1).unwrap_or(0);
    let mut want = vec![0i32; n as usize];
    for &(i, g) in &s.ents { want[i as usize] = g; }
    // raised entities: `reuse` (generation >= 2: index is brought to generation g-1, deleted, and handed
    // out again by the atomic create) and `fresh` (generation 1: a contiguous top suffix, never created
    // before the atomic phase). `tgt[i]` = generation index i must be alive with before the atomic phase.
    let mut is_raised = vec![false; n as usize];
    for &(i, g) in &s.raised {
        if want[i as usize] != g { die("setup: raised entry is not an alive (index, generation)"); }
        is_raised[i as usize] = true;
    }
    let n_fresh = s.raised.iter().filter(|e| e.1 == 1).count() as u32;
    let n0 = n - n_fresh;
    for &(i, g) in &s.raised { if g == 1 && i < n0 { die("setup: raised generation-1 entities must be a top suffix"); } }
    let tgt: Vec<i32> = (0..n as usize).map(|i| if is_raised[i] { want[i] - 1 } else { want[i] }).collect();
    let mut handles: HashMap<(u32, i32), Entity> = HashMap::with_capacity(n as usize + 16);
    let mut cur: Vec<Entity> = Vec::with_capacity(n as usize);
    for i in 0..n0 {
        let e = world.create_entity().build();
        assert!(e.id() == i && e.gen().id() == 1, "setup: unexpected first handle");
        handles.insert((i, 1), e);
        cur.push(e);
    }
    let maxg = tgt.iter().copied().max().unwrap_or(0);
    for lvl in 2..=maxg {
        let del: Vec<Entity> = (0..n0 as usize).filter(|&i| tgt[i] >= lvl).map(|i| cur[i]).collect();
        world.delete_entities(&del).expect("setup: delete");
        world.maintain();
        for _ in 0..del.len() {
            let e = world.create_entity().build();
            let i = e.id() as usize;
            assert!(i < n0 as usize && tgt[i] >= lvl && e.gen().id() == lvl, "setup: index not reused as expected");
            handles.insert((e.id(), lvl), e);
            cur[i] = e;
        }
    }
    let dead: Vec<Entity> = (0..n0 as usize).filter(|&i| want[i] == 0).map(|i| cur[i]).collect();
    world.delete_entities(&dead).expect("setup: delete dead");
    world.maintain();
    // the to-be-raised indices go to the free list last, so the atomic creates pop exactly them
    let reuse: Vec<Entity> = (0..n0 as usize).filter(|&i| is_raised[i]).map(|i| cur[i]).collect();
    if !reuse.is_empty() {
        world.delete_entities(&reuse).expect("setup: delete to-be-raised");
        world.maintain();
    }
    {
        let ents = world.entities();
        for _ in 0..reuse.len() {
            let e = ents.create();   // Entities::create = Allocator::allocate_atomic
            let i = e.id() as usize;
            if !(i < n0 as usize && is_raised[i] && e.gen().id() == want[i] && !handles.contains_key(&(e.id(), want[i]))) {
                die(&format!("setup: atomic create returned {}:{} which is not a requested raised handle", e.id(), e.gen().id()));
            }
            handles.insert((e.id(), want[i]), e);
            cur[i] = e;
        }
        for j in 0..n_fresh {
            let e = ents.create();
            if !(e.id() == n0 + j && e.gen().id() == 1) {
                die(&format!("setup: atomic create returned {}:{} instead of the fresh index {}:1", e.id(), e.gen().id(), n0 + j));
            }
            handles.insert((e.id(), 1), e);
            cur.push(e);
        }
        // NO maintain from here on: these entities stay in the `raised` set of the allocator
    }
    {
        let ents = world.entities();
        for i in 0..n as usize {
            if ents.is_alive(cur[i]) != (want[i] > 0) { die("setup: aliveness mismatch"); }
            if want[i] > 0 && cur[i].gen().id() != want[i] { die("setup: generation mismatch"); }
            if want[i] > 0 && ents.entity(i as u32) != cur[i] { die("setup: Entities::entity disagrees with the handle"); }
        }
    }
    for k in 0..14usize {
        if s.stores[k].is_empty() { continue; }
        with_k!(k, C => {
            let mut st = world.write_storage::<C>();
            // The final content is the `store` line, but it is reached through a history that a real program could have:
            // insertions in a scrambled (deterministic) order, and for a quarter of the entries a remove + re-insert,
            // so that storages with internal indirection (dense vectors) are NOT in their identity layout.
            let order = scrambled(k, &s.stores[k]);
            // ... and every other store has been filled and bulk-cleared once before (`Storage::clear`)
            if scramble_key(k, 7777) % 2 == 0 {
                for &j in order.iter().take(3) {
                    let (i, v) = s.stores[k][j];
                    st.insert(cur[i as usize], <C as HV>::mk(i, v ^ 0x55)).expect("setup: pre-insert");
                }
                st.clear();
            }
            for &j in &order {
                let (i, v) = s.stores[k][j];
                st.insert(cur[i as usize], <C as HV>::mk(i, v)).expect("setup: insert");
            }
            let churn: Vec<usize> = order.iter().cloned().filter(|&j| scramble_key(k, s.stores[k][j].0) % 4 == 0).collect();
            for &j in &churn {
                let (i, _) = s.stores[k][j];
                if st.remove(cur[i as usize]).is_none() { die("setup: churn remove found nothing"); }
            }
            for &j in churn.iter().rev() {
                let (i, v) = s.stores[k][j];
                st.insert(cur[i as usize], <C as HV>::mk(i, v)).expect("setup: re-insert");
            }
            // ... and the last thing that happened to the store: one entry was overwritten (an exclusive look-up), removed
            // and inserted again, so whatever the storage remembers about its latest exclusive access is about a slot
            // that has moved since
            if s.stores[k].len() >= 2 {
                let j = if scramble_key(k, 4242) % 2 == 0 {
                    (0..s.stores[k].len()).min_by_key(|&j| s.stores[k][j].0).unwrap()
                } else {
                    order[0]
                };
                let (i, v) = s.stores[k][j];
                st.insert(cur[i as usize], <C as HV>::mk(i, v ^ 0x0f)).expect("setup: overwrite");
                if st.remove(cur[i as usize]).is_none() { die("setup: remove after overwrite found nothing"); }
                st.insert(cur[i as usize], <C as HV>::mk(i, v)).expect("setup: insert after overwrite");
            }
        });
    }
    let mut cs14 = ChangeSet::new();
    let mut cs15 = ChangeSet::new();
    // the change sets have been used and cleared before, too
    for &j in scrambled(14, &s.stores[14]).iter().take(3) { let (i, v) = s.stores[14][j]; cs14.add(cur[i as usize], v ^ 0x55); }
    cs14.clear();
    for &j in scrambled(15, &s.stores[15]).iter().take(2) { let (i, v) = s.stores[15][j]; cs15.add(cur[i as usize], v ^ 0x33); }
    cs15.clear();
    // the three ways of filling a change set: `add` one by one, `extend` with a whole batch, `collect`
    {
        let order = scrambled(14, &s.stores[14]);
        let (head, tail) = order.split_at(order.len() / 2);
        for &j in head { let (i, v) = s.stores[14][j]; cs14.add(cur[i as usize], v); }
        cs14.extend(tail.iter().map(|&j| { let (i, v) = s.stores[14][j]; (cur[i as usize], v) }));
    }
    if s.stores[15].len() % 2 == 0 {
        cs15.extend(scrambled(15, &s.stores[15]).iter().map(|&j| { let (i, v) = s.stores[15][j]; (cur[i as usize], v) }));
    } else {
        cs15 = scrambled(15, &s.stores[15]).iter().map(|&j| { let (i, v) = s.stores[15][j]; (cur[i as usize], v) }).collect();
    }
    // pending deletions: `Entities::delete` (= `Allocator::kill_atomic`) marks the entity in the `killed` set;
    // until the next `maintain()` it stays alive, keeps its components and is a member of every join mask.
    // NO maintain afterwards. (That the entity is still *yielded by the joins* is what the joins under test
    // must show; it is deliberately not asserted here.)
    {
        let ents = world.entities();
        for &(i, g) in &s.killed {
            if want[i as usize] != g { die("setup: killed entry is not an alive (index, generation)"); }
            let e = cur[i as usize];
            if ents.delete(e).is_err() { die(&format!("setup: Entities::delete({}:{}) returned Err", i, g)); }
            if !ents.is_alive(e) { die(&format!("setup: {}:{} is no longer alive right after Entities::delete (before maintain)", i, g)); }
        }
        for &(i, _) in &s.killed {
            if !ents.is_alive(cur[i as usize]) { die("setup: an entity with a pending deletion is not alive"); }
        }
    }
    let mk = |v: &Vec<u32>| { let mut b = BitSet::new(); for &i in v { b.add(i); } b };
    let mut h = H {
        world, cs14, cs15,
        b0: mk(&s.bits[0]), b1: mk(&s.bits[1]), b2: mk(&s.bits[2]), b3: mk(&s.bits[3]),
        empty: BitSet::new(), handles, r12, r13, n,
    };
    let _ = h.events(12);
    let _ = h.events(13);
    h
}

impl H {
    /// drain the component events of flagged store k (12|13): (count, hash)
    fn events(&mut self, k: usize) -> (usize, u128) {
        let mut cnt = 0usize;
        let mut hh = 0u128;
        let mut f = |ev: &ComponentEvent| {
            let (code, idx) = match *ev {
                ComponentEvent::Inserted(i) => (1u128, i),
                ComponentEvent::Modified(i) => (2u128, i),
                ComponentEvent::Removed(i) => (3u128, i),
            };
            hh = (hh * 1_000_003 + code * (1u128 << 32) + idx as u128 + 1) % MM;
            cnt += 1;
        };
        if k == 12 {
            let st = self.world.read_storage::<C12>();
            for ev in st.channel().read(&mut self.r12) { f(ev); }
        } else {
            let st = self.world.read_storage::<C13>();
            for ev in st.channel().read(&mut self.r13) { f(ev); }
        }
        (cnt, hh)
    }

    /// `P<k>=cnt/sum/mix`
    fn post(&self, k: usize, out: &mut String) {
        let mut cnt = 0u64;
        let mut sum = 0i128;
        let mut mix = 0u128;
        let mut add = |i: u32, v: i64| {
            cnt += 1;
            sum += v as i128;
            let m = MM as i128;
            let vm = (((v as i128 % m) + m) % m) as u128;
            mix = (mix + (i as u128 + 1) * (vm + 1)) % MM;
        };
        if k < 14 {
            with_k!(k, C => {
                let st = self.world.read_storage::<C>();
                for (i, c) in (st.mask(), &st).join() { add(i, c.val()); }
            });
        } else {
            let cs = if k == 14 { &self.cs14 } else { &self.cs15 };
            for (i, v) in (BitSetNot(&self.empty), cs).join() { add(i, *v); }
        }
        let _ = write!(out, " P{}={}/{}/{}", k, cnt, sum, mix);
    }
}

// type-level capability probes (inherent const shadows the trait const when the bound holds)
trait CapNo { const YES: u8 = 0; }
struct CapD<T>(std::marker::PhantomData<T>);
impl<T> CapNo for CapD<T> {}
impl<T: DistinctStorage> CapD<T> { const YES: u8 = 1; }
struct CapP<T>(std::marker::PhantomData<T>);
impl<T> CapNo for CapP<T> {}
impl<T: ParJoin> CapP<T> { const YES: u8 = 1; }

macro_rules! caps_line {
    ($out:ident; $($name:literal $c:ty),*) => {{
        $out.push_str("caps =>");
        $( let _ = write!($out, " D:{}={}", $name, CapD::<<$c as Component>::Storage>::YES); )*
        $( let _ = write!($out, " P:{}={}", $name, CapP::<&'static mut WriteStorage<'static, $c>>::YES); )*
        $( let _ = write!($out, " R:{}={}", $name,
            CapP::<&'static mut RestrictedStorage<'static, $c, &'static mut <$c as Component>::Storage>>::YES); )*
        $out.push('\n');
    }};
}
fn caps(out: &mut String) {
    caps_line!(out; "vec" C0, "dense" C2, "hash" C4, "btree" C6, "dvec" C8, "null" C10, "flagged" C12, "flaggedd" C13);
}

// ---------------------------------------------------------------------------------------------
// ops
// ---------------------------------------------------------------------------------------------

#[derive(Clone, Copy, PartialEq, Debug)]
pub enum Mode { Seq, Lend, LendFe, LendGet, LendGetW, Tree, Par, Unc }
#[derive(Clone, Copy, PartialEq, Debug)]
pub enum Via { Foreach, Map, Collect, Count, FindFirst(u32), FindLast(u32), Skip(usize), Nth(usize), StepBy(usize) }
#[derive(Clone, Copy, Debug)]
pub enum Probe { H(u32, i32), U(u32) }

#[derive(Clone, Debug)]
pub struct JoinOp {
    pub sid: String,
    pub mode: Mode,
    pub opts: Vec<(String, String)>, // as printed, in order
    pub take: Option<usize>,
    pub probes: Vec<Probe>,
    pub tree: String,
    pub pool: usize,
    pub via: Via,
    /// set by `exec_op` from the shape: no member whose fetch writes, removes or emits events
    pub members_read_only: bool,
}
fn mode_name(m: Mode) -> &'static str {
    match m { Mode::Seq => "seq", Mode::Lend => "lend", Mode::LendFe => "lendfe", Mode::LendGet => "lendget", Mode::LendGetW => "lendgetw",
              Mode::Tree => "tree", Mode::Par => "par", Mode::Unc => "unc" }
}
fn mode_of(s: &str) -> Option<Mode> {
    Some(match s { "seq" => Mode::Seq, "lend" => Mode::Lend, "lendfe" => Mode::LendFe, "lendget" => Mode::LendGet, "lendgetw" => Mode::LendGetW,
                   "tree" => Mode::Tree, "par" => Mode::Par, _ => return None })
}
impl JoinOp {
    fn new(sid: &str, mode: Mode) -> Self {
        JoinOp { sid: sid.to_string(), mode, opts: Vec::new(), take: None, probes: Vec::new(),
                 tree: String::new(), pool: 1, via: Via::Foreach, members_read_only: false }
    }
    /// add an option (also interprets it); Err on a malformed value
    fn opt(&mut self, k: &str, v: &str) -> Result<(), String> {
        match k {
            "take" => self.take = Some(v.parse().map_err(|_| format!("bad take={}", v))?),
            "probes" => {
                for t in v.split(',').filter(|t| !t.is_empty()) {
                    let (i, g) = t.split_once(':').ok_or_else(|| format!("bad probe {}", t))?;
                    self.probes.push(Probe::H(i.parse().map_err(|_| format!("bad probe {}", t))?,
                                              g.parse().map_err(|_| format!("bad probe {}", t))?));
                }
            }
            "uprobes" => {
                for t in v.split(',').filter(|t| !t.is_empty()) {
                    let i: u32 = t.parse().map_err(|_| format!("bad uprobe {}", t))?;
                    if i > MAXIDX { return Err(format!("uprobe {} beyond 2^24-1", t)); }
                    self.probes.push(Probe::U(i));
                }
            }
            "tree" => {
                if !v.bytes().all(|c| c == b'S' || c == b'L') { return Err(format!("bad tree={}", v)); }
                self.tree = v.to_string();
            }
            "pool" => {
                self.pool = v.parse().map_err(|_| format!("bad pool={}", v))?;
                if self.pool == 0 || self.pool > 256 { return Err(format!("bad pool={}", v)); }
            }
            "via" => self.via = match v { "foreach" => Via::Foreach, "map" => Via::Map, "collect" => Via::Collect,
                                          _ => return Err(format!("bad via={}", v)) },
            _ => return Err(format!("unknown option {}", k)),
        }
        self.opts.push((k.to_string(), v.to_string()));
        Ok(())
    }
}

pub struct Shape {
    pub sid: &'static str,
    pub members: &'static str,
    pub modes: &'static [Mode],
    pub run: fn(&mut H, &JoinOp, &mut String),
}
impl Shape {
    fn supports(&self, m: Mode) -> bool { self.modes.contains(&m) }
    fn unconstrained(&self) -> bool { self.modes.contains(&Mode::Unc) }
    fn arity(&self) -> usize { self.members.split(' ').count() }
    /// stores borrowed mutably (m, w, d, c, t members), ascending
    fn mut_ks(&self) -> Vec<usize> {
        let mut v = Vec::new();
        for m in self.members.split(' ') {
            let m = m.trim_start_matches('?');
            let b = m.as_bytes();
            if matches!(b[0], b'm' | b'w' | b'd' | b'c' | b't') {
                if let Ok(k) = m[1..].parse::<usize>() { v.push(k); }
            }
        }
        v.sort();
        v.dedup();
        v
    }
    fn has_bits(&self) -> bool { self.members.split(' ').any(|m| m.trim_start_matches('?').starts_with('B')) }
}

/// Indices of the items an adaptor delivered: `a,b,c`, `-` for none, `?` when an item does not reveal its index.
fn put_revealed(v: Vec<Option<u32>>, out: &mut String) {
    if v.iter().any(|i| i.is_none()) { out.push('?'); }
    else if v.is_empty() { out.push('-'); }
    else { out.push_str(&v.iter().map(|i| i.unwrap().to_string()).collect::<Vec<_>>().join(",")); }
}
static POOLS: Mutex<Vec<(usize, &'static rayon::ThreadPool)>> = Mutex::new(Vec::new());
fn pool_for(n: usize) -> &'static rayon::ThreadPool {
    let mut g = POOLS.lock().unwrap();
    if let Some(p) = g.iter().find(|p| p.0 == n) { return p.1; }
    let p: &'static rayon::ThreadPool =
        Box::leak(Box::new(rayon::ThreadPoolBuilder::new().num_threads(n).build().expect("thread pool")));
    g.push((n, p));
    p
}

macro_rules! mode_id {
    (seq) => { Mode::Seq }; (lend) => { Mode::Lend }; (lendfe) => { Mode::LendFe }; (lendget) => { Mode::LendGet }; (lendgetw) => { Mode::LendGetW };
    (par) => { Mode::Par }; (tree) => { Mode::Tree }; (unc) => { Mode::Unc };
}

/// per-mode driver code, expanded once per (shape, supported mode) so that everything stays statically typed
macro_rules! arm {
    (seq, $x:ident, $op:ident, $out:ident, { $($pre:tt)* }, $e:expr) => {{
        $($pre)*
        let mut acc = Acc::new();
        let j = $e;
        // the iterator adaptors a caller may consume the join through (separate read-only passes, see `exec_op`): the
        // indices delivered, judged by the driver against the plain join's
        if let Via::Skip(k) = $op.via {
            put_revealed(j.join().skip(k).map(|item| item.reveal()).collect(), $out);
        } else if let Via::Nth(k) = $op.via {
            put_revealed(j.join().nth(k).map(|item| item.reveal()).into_iter().collect(), $out);
        } else if let Via::StepBy(k) = $op.via {
            put_revealed(j.join().step_by(k.max(1)).map(|item| item.reveal()).collect(), $out);
        } else {
        match $op.take {
            Some(t) => { for mut item in j.join().take(t) { acc.visit(&mut item); } }
            None => { for mut item in j.join() { acc.visit(&mut item); } }
        }
        acc.finish($out);
        }
    }};
    (lend, $x:ident, $op:ident, $out:ident, { $($pre:tt)* }, $e:expr) => {{
        $($pre)*
        let mut acc = Acc::new();
        let lim = $op.take.unwrap_or(usize::MAX);
        {
            let mut it = ($e).lend_join();
            while acc.n < lim {
                match it.next() {
                    Some(mut item) => acc.visit(&mut item),
                    None => break,
                }
            }
        }
        acc.finish($out);
    }};
    (lendfe, $x:ident, $op:ident, $out:ident, { $($pre:tt)* }, $e:expr) => {{
        $($pre)*
        let mut acc = Acc::new();
        ($e).lend_join().for_each(|mut item| acc.visit(&mut item));
        acc.finish($out);
    }};
    (lendget, $x:ident, $op:ident, $out:ident, { $($pre:tt)* }, $e:expr) => {{
        let probe_ents = $x.world.entities();
        $($pre)*
        let mark = $out.len();
        {
            let mut it = ($e).lend_join();
            for p in &$op.probes {
                match *p {
                    Probe::H(i, g) => match $x.handles.get(&(i, g)) {
                        None => $out.push_str(" skip"),
                        Some(&ent) => put_probe(it.get(ent, &probe_ents), i, $out),
                    },
                    Probe::U(i) => put_probe(it.get_unchecked(i), i, $out),
                }
            }
        }
        if $out.len() > mark { $out.remove(mark); } // no leading space
    }};
    (lendgetw, $x:ident, $op:ident, $out:ident, { $($pre:tt)* }, $e:expr) => {{
        // look-ups by entity through ONE lending join, each item visited like an iterated one (printed, then every mutable
        // component incremented): a later look-up of the same entity sees what an earlier one did
        let probe_ents = $x.world.entities();
        $($pre)*
        let mark = $out.len();
        {
            let mut it = ($e).lend_join();
            for p in &$op.probes {
                if let Probe::H(i, g) = *p {
                    match $x.handles.get(&(i, g)) {
                        None => $out.push_str(" skip"),
                        Some(&ent) => match it.get(ent, &probe_ents) {
                            None => $out.push_str(" none"),
                            Some(mut item) => { $out.push_str(" some:"); item.put(Some(i), $out); item.bump(); }
                        },
                    }
                }
            }
        }
        if $out.len() > mark { $out.remove(mark); } // no leading space
    }};
    (par, $x:ident, $op:ident, $out:ident, { $($pre:tt)* }, $e:expr) => {{
        $($pre)*
        let pool = pool_for($op.pool);
        let j = $e;
        if let Via::Count = $op.via {
            // `count()` is one more way to consume a parallel join (separate pass, see `exec_op`)
            let c = pool.install(|| j.par_join().count());
            let _ = write!($out, "{}", c);
        } else if let Via::FindFirst(t) = $op.via {
            // early-exit consumers (separate passes, read-only joins only): the first member with index >= t; members
            // below t are made a little slower, so that leaves further right tend to find their match first
            let r = pool.install(|| j.par_join().map(|item| { let i = item.reveal(); if i.map_or(false, |i| i < t) { spin_a_little(); } i })
                .find_first(move |i| i.map_or(false, |i| i >= t)));
            let _ = write!($out, "{}", match r { Some(Some(i)) => i.to_string(), _ => "-".to_string() });
        } else if let Via::FindLast(t) = $op.via {
            let r = pool.install(|| j.par_join().map(|item| { let i = item.reveal(); if i.map_or(false, |i| i > t) { spin_a_little(); } i })
                .find_last(move |i| i.map_or(false, |i| i <= t)));
            let _ = write!($out, "{}", match r { Some(Some(i)) => i.to_string(), _ => "-".to_string() });
        } else {
        let v: Vec<(Option<u32>, String)> = match $op.via {
            Via::Foreach => {
                let m: Mutex<Vec<(Option<u32>, String)>> = Mutex::new(Vec::new());
                pool.install(|| j.par_join().for_each(|mut item| {
                    let t = visit_par(&mut item);
                    m.lock().unwrap().push(t);
                }));
                m.into_inner().unwrap()
            }
            Via::Map => pool.install(|| j.par_join().map(|mut item| visit_par(&mut item)).collect::<Vec<_>>()),
            Via::Collect => {
                let items = pool.install(|| j.par_join().collect::<Vec<_>>());
                items.into_iter().map(|mut item| visit_par(&mut item)).collect()
            }
            Via::Count | Via::FindFirst(_) | Via::FindLast(_) | Via::Skip(_) | Via::Nth(_) | Via::StepBy(_) => unreachable!(),
        };
        finish_par(v, $out);
        }
    }};
    (tree, $x:ident, $op:ident, $out:ident, { $($pre:tt)* }, $e:expr) => {{
        let mut done = false;
        if_h3! {
            {
                $($pre)*
                let root = parse_tree(&$op.tree);
                let mut acc = Acc::new();
                let mut cur = 0usize;
                let j = $e;
                let nl = j.par_join().verif_drive(
                    &mut |d: usize, p: u64| tree_choose(&root, d, p),
                    &mut |leaf: usize, mut item| {
                        while cur <= leaf { acc.buf.push_str(" L"); cur += 1; }
                        acc.visit(&mut item);
                    },
                );
                while cur < nl { acc.buf.push_str(" L"); cur += 1; }
                let _ = write!($out, "{}", nl);
                $out.push_str(&acc.buf);
                done = true;
            }
        }
        if !done { $out.push_str("nohook"); }
    }};
    (unc, $x:ident, $op:ident, $out:ident, $pre:tt, $e:expr) => {{}};
}

macro_rules! shapes {
    ($( $f:ident $sid:literal $members:literal [$($mode:ident)*] |$x:ident| $pre:tt => $e:expr; )*) => {
        $(
            #[allow(unused_mut, unused_variables)]
            fn $f($x: &mut H, op: &JoinOp, out: &mut String) {
                $( if op.mode == mode_id!($mode) { arm!($mode, $x, op, out, $pre, $e); return; } )*
                panic!("shape does not support mode");
            }
        )*
        pub static SHAPES: &[Shape] = &[
            $( Shape { sid: $sid, members: $members, modes: &[$(mode_id!($mode)),*], run: $f }, )*
        ];
    };
}

// prelude helpers used in the catalogue: R = ReadStorage, W = WriteStorage, E = Entities
macro_rules! R { ($x:ident $a:ident $c:ty) => { let $a: ReadStorage<$c> = $x.world.read_storage::<$c>(); }; }
macro_rules! W { ($x:ident $a:ident $c:ty) => { let mut $a: WriteStorage<$c> = $x.world.write_storage::<$c>(); }; }
macro_rules! E { ($x:ident $a:ident) => { let $a = $x.world.entities(); }; }

include!("shapes.rs");

fn find_shape(sid: &str) -> Option<&'static Shape> { SHAPES.iter().find(|s| s.sid == sid) }

fn print_op(op: &JoinOp, sh: &Shape, out: &mut String) {
    let _ = write!(out, "join {} {}", op.sid, mode_name(op.mode));
    for (k, v) in &op.opts { let _ = write!(out, " {}={}", k, v); }
    let _ = write!(out, " : {} => ", sh.members);
}

/// execute one join op: prints the whole `op => result` line
fn exec_op(h: &mut H, op: &JoinOp, out: &mut String) {
    let sh = find_shape(&op.sid).expect("unknown shape");
    print_op(op, sh, out);
    let mark = out.len();
    let mut op2 = op.clone();
    op2.members_read_only = sh.members.split_whitespace().all(|m| {
        let m = m.trim_start_matches('?');
        matches!(m.chars().next(), Some('s') | Some('n') | Some('e') | Some('r') | Some('B'))
    });
    let op = &op2;
    // read-only parallel joins: `par_join().count()` first (a pass of its own), compared with the items delivered below
    let counted: Option<usize> = if op.mode == Mode::Par && op.members_read_only {
        let mut opc = op.clone();
        opc.via = Via::Count;
        let mut tmp = String::new();
        let rc = catch_unwind(AssertUnwindSafe(|| (sh.run)(h, &opc, &mut tmp)));
        if rc.is_ok() { tmp.trim().parse::<usize>().ok() } else { None }
    } else { None };
    let r = catch_unwind(AssertUnwindSafe(|| (sh.run)(h, op, out)));
    if let (Some(c), true) = (counted, r.is_ok()) {
        let delivered = out[mark..].split_whitespace().next().and_then(|t| t.parse::<usize>().ok());
        if delivered.is_some() && delivered != Some(c) { let _ = write!(out, " !count={}", c); }
    }
    // read-only parallel joins, early-exit consumers: `find_first` / `find_last` with index thresholds around the places
    // where the producer splits; printed as `!ff<t>=<i>` / `!fl<t>=<i>` tokens (`-` = nothing found), judged by the driver
    if op.mode == Mode::Par && op.members_read_only && r.is_ok() {
        let n = h.n.max(1);
        let mut ts: Vec<u32> = vec![n / 2, (n / 2).saturating_sub(1), n / 4, n - n / 4, 63, 64, 4095, 4096];
        ts.retain(|t| *t < n + 2);
        ts.sort(); ts.dedup();
        for t in ts {
            for last in [false, true] {
                let mut opf = op.clone();
                opf.via = if last { Via::FindLast(t) } else { Via::FindFirst(t) };
                let mut tmp = String::new();
                let rc = catch_unwind(AssertUnwindSafe(|| (sh.run)(h, &opf, &mut tmp)));
                let got = if rc.is_ok() { tmp.trim().to_string() } else { "panic".to_string() };
                let _ = write!(out, " !{}{}={}", if last { "fl" } else { "ff" }, t, got);
            }
        }
    }
    // sequential joins consumed through `skip` / `nth` / `step_by` (read-only joins without `take`): `!sk<k>=` / `!nth<k>=` /
    // `!sb<k>=` tokens with the indices delivered (`-` = none, `?` = the items do not reveal their index)
    if op.mode == Mode::Seq && op.members_read_only && op.take.is_none() && r.is_ok() {
        for (tag, via) in [("sk1", Via::Skip(1)), ("sk3", Via::Skip(3)), ("nth1", Via::Nth(1)), ("nth2", Via::Nth(2)),
                           ("sb2", Via::StepBy(2)), ("sb3", Via::StepBy(3))] {
            let mut opf = op.clone();
            opf.via = via;
            let mut tmp = String::new();
            let rc = catch_unwind(AssertUnwindSafe(|| (sh.run)(h, &opf, &mut tmp)));
            let got = if rc.is_ok() { tmp.trim().to_string() } else { "panic".to_string() };
            let _ = write!(out, " !{}={}", tag, got);
        }
    }
    let hook_missing = out[mark..].starts_with("nohook");
    let with_post = matches!(op.mode, Mode::Seq | Mode::Lend | Mode::LendFe | Mode::LendGetW | Mode::Par | Mode::Tree);
    let ks = sh.mut_ks();
    let ev12 = h.events(12);
    let ev13 = h.events(13);
    match r {
        Err(_) => { out.truncate(mark); out.push_str("panic"); }
        Ok(()) => {
            if with_post && !ks.is_empty() && !hook_missing {
                let r2 = catch_unwind(AssertUnwindSafe(|| {
                    let mut p = String::new();
                    for &k in &ks {
                        h.post(k, &mut p);
                        if k == 12 { let _ = write!(p, " F12={}/{}", ev12.0, ev12.1); }
                        if k == 13 { let _ = write!(p, " F13={}/{}", ev13.0, ev13.1); }
                    }
                    p
                }));
                match r2 {
                    Ok(p) => { out.push_str(" ;"); out.push_str(&p); }
                    Err(_) => { out.truncate(mark); out.push_str("panic"); }
                }
            }
        }
    }
    // by-value change-set members consume the set: install an empty one
    for m in sh.members.split(' ') {
        if m == "c14" { h.cs14 = ChangeSet::new(); }
        if m == "c15" { h.cs15 = ChangeSet::new(); }
    }
    out.push('\n');
}

fn flush(out: &mut String) {
    let so = std::io::stdout();
    let mut l = so.lock();
    l.write_all(out.as_bytes()).unwrap();
    l.flush().unwrap();
    out.clear();
}

include!("gen.rs");

// ---------------------------------------------------------------------------------------------
// run <file>
// ---------------------------------------------------------------------------------------------

fn die(msg: &str) -> ! {
    eprintln!("h_join: {}", msg);
    std::process::exit(2);
}

fn parse_range(t: &str) -> Option<(u32, u32)> {
    match t.split_once('-') {
        Some((a, b)) => { let a = a.parse().ok()?; let b = b.parse().ok()?; if a <= b { Some((a, b)) } else { None } }
        None => { let a = t.parse().ok()?; Some((a, a)) }
    }
}

fn parse_join(line: &str) -> Result<JoinOp, String> {
    let ts: Vec<&str> = line.split(' ').filter(|t| !t.is_empty()).collect();
    if ts.len() < 5 || ts[0] != "join" { return Err("malformed join line".into()); }
    let sh = find_shape(ts[1]).ok_or_else(|| format!("unknown shape {}", ts[1]))?;
    let mode = mode_of(ts[2]).ok_or_else(|| format!("unknown mode {}", ts[2]))?;
    if !sh.supports(mode) { return Err(format!("shape {} does not support mode {}", ts[1], ts[2])); }
    let mut op = JoinOp::new(ts[1], mode);
    let mut i = 3;
    while i < ts.len() && ts[i] != ":" {
        let (k, v) = ts[i].split_once('=').ok_or_else(|| format!("bad option {}", ts[i]))?;
        op.opt(k, v)?;
        i += 1;
    }
    if i >= ts.len() { return Err("missing ':'".into()); }
    let members = ts[i + 1..].join(" ");
    if members != sh.members {
        return Err(format!("members of {} are [{}], script says [{}]", sh.sid, sh.members, members));
    }
    for (k, _) in &op.opts {
        let ok = match (mode, k.as_str()) {
            (Mode::Seq, "take") | (Mode::Lend, "take") => true,
            (Mode::LendGet, "probes") | (Mode::LendGet, "uprobes") | (Mode::LendGetW, "probes") => true,
            (Mode::Tree, "tree") => true,
            (Mode::Par, "pool") | (Mode::Par, "via") => true,
            _ => false,
        };
        if !ok { return Err(format!("option {} not valid for mode {}", k, ts[2])); }
    }
    if sh.unconstrained() {
        let ok = match mode { Mode::LendGet => true, Mode::Seq | Mode::Lend => op.take.map_or(false, |t| t <= 100_000), _ => false };
        if !ok { return Err(format!("shape {} is unconstrained (2^24 indices): needs seq/lend with take=N", sh.sid)); }
    }
    Ok(op)
}

fn run_file(path: &str, out: &mut String) {
    let text = std::fs::read_to_string(path).unwrap_or_else(|e| die(&format!("cannot read {}: {}", path, e)));
    let mut setup = Setup::default();
    let mut world: Option<H> = None;
    let mut have_case = false;
    // world is built lazily at the first op line of a case
    fn ensure<'a>(world: &'a mut Option<H>, setup: &mut Setup, out: &mut String) -> &'a mut H {
        if world.is_none() {
            setup.normalise();
            setup.print(out);
            *world = Some(build_world(setup));
        }
        world.as_mut().unwrap()
    }
    for (ln, raw) in text.lines().enumerate() {
        let line = raw.split(" => ").next().unwrap().trim();
        let line = line.strip_suffix(" =>").unwrap_or(line).trim();
        if line.is_empty() || line.starts_with('#') || line.starts_with("domain") { continue; }
        let ts: Vec<&str> = line.split(' ').filter(|t| !t.is_empty()).collect();
        let bad = |m: &str| -> ! { die(&format!("line {}: {} [{}]", ln + 1, m, line)) };
        match ts[0] {
            "case" => {
                if have_case && world.is_none() { let _ = ensure(&mut world, &mut setup, out); }
                flush(out);
                world = None;
                setup = Setup::default();
                have_case = true;
                let _ = writeln!(out, "case {}", ts.get(1).copied().unwrap_or("anon"));
            }
            "ents" | "raised" | "killed" | "store" | "bitset" => {
                if !have_case { have_case = true; out.push_str("case anon\n"); }
                if world.is_some() { bad("setup line after the first op of a case"); }
                match ts[0] {
                    "ents" => for t in &ts[1..] {
                        let (r, g) = t.split_once(':').unwrap_or_else(|| bad("bad ents token"));
                        let (lo, hi) = parse_range(r).unwrap_or_else(|| bad("bad ents token"));
                        let g: i32 = g.parse().unwrap_or_else(|_| bad("bad generation"));
                        if g < 1 || hi > MAXIDX { bad("bad ents token"); }
                        for i in lo..=hi { setup.ents.push((i, g)); }
                    },
                    "killed" => for t in &ts[1..] {
                        let (r, g) = t.split_once(':').unwrap_or_else(|| bad("bad killed token"));
                        let (lo, hi) = parse_range(r).unwrap_or_else(|| bad("bad killed token"));
                        let g: i32 = g.parse().unwrap_or_else(|_| bad("bad generation"));
                        if g < 1 || hi > MAXIDX { bad("bad killed token"); }
                        for i in lo..=hi { setup.killed.push((i, g)); }
                    },
                    "raised" => for t in &ts[1..] {
                        let (r, g) = t.split_once(':').unwrap_or_else(|| bad("bad raised token"));
                        let (lo, hi) = parse_range(r).unwrap_or_else(|| bad("bad raised token"));
                        let g: i32 = g.parse().unwrap_or_else(|_| bad("bad generation"));
                        if g < 1 || hi > MAXIDX { bad("bad raised token"); }
                        for i in lo..=hi { setup.raised.push((i, g)); }
                    },
                    "store" => {
                        if ts.len() < 3 { bad("bad store line"); }
                        let k: usize = ts[1].parse().unwrap_or_else(|_| bad("bad store index"));
                        if k >= 16 || ts[2] != KINDS[k] { bad("store index/kind mismatch"); }
                        for t in &ts[3..] {
                            let (r, v) = t.split_once(':').unwrap_or_else(|| bad("bad store token"));
                            let (lo, hi) = parse_range(r).unwrap_or_else(|| bad("bad store token"));
                            let v: i64 = v.parse().unwrap_or_else(|_| bad("bad value"));
                            if hi > MAXIDX { bad("bad store token"); }
                            for i in lo..=hi { setup.stores[k].push((i, v + (i - lo) as i64)); }
                        }
                    }
                    _ => {
                        if ts.len() < 2 { bad("bad bitset line"); }
                        let b: usize = ts[1].parse().unwrap_or_else(|_| bad("bad bitset index"));
                        if b >= 4 { bad("bad bitset index"); }
                        for t in &ts[2..] {
                            let (lo, hi) = parse_range(t).unwrap_or_else(|| bad("bad bitset token"));
                            if hi > MAXIDX { bad("bad bitset token"); }
                            for i in lo..=hi { setup.bits[b].push(i); }
                        }
                    }
                }
            }
            "caps" => {
                if !have_case { have_case = true; out.push_str("case anon\n"); }
                let _ = ensure(&mut world, &mut setup, out);
                caps(out);
            }
            "join" => {
                if !have_case { have_case = true; out.push_str("case anon\n"); }
                let op = parse_join(line).unwrap_or_else(|m| bad(&m));
                let h = ensure(&mut world, &mut setup, out);
                exec_op(h, &op, out);
                flush(out);
            }
            _ => bad("unknown line"),
        }
    }
    if have_case && world.is_none() { let _ = ensure(&mut world, &mut setup, out); }
}

fn main() {
    std::panic::set_hook(Box::new(|_| {})); // panics inside ops are results, not noise
    let args: Vec<String> = std::env::args().collect();
    let mut h3 = false;
    if_h3! { h3 = true; }
    let mut out = String::with_capacity(1 << 16);
    let usage = || -> ! {
        eprintln!("usage: h_join gen <seed> <cases> <tiny|small|mid|big|raw|mix> | trees <seed> <cases> | run <file> | shapes");
        std::process::exit(2)
    };
    match args.get(1).map(|s| s.as_str()) {
        Some("gen") if args.len() >= 5 => {
            let seed: u64 = args[2].parse().unwrap_or_else(|_| usage());
            let cases: usize = args[3].parse().unwrap_or_else(|_| usage());
            let class = args[4].as_str();
            if !["tiny", "small", "mid", "big", "raw", "mix"].contains(&class) { usage(); }
            out.push_str("domain join\n");
            gen_main(seed, cases, class, h3, &mut out);
        }
        Some("trees") if args.len() >= 4 => {
            let seed: u64 = args[2].parse().unwrap_or_else(|_| usage());
            let cases: usize = args[3].parse().unwrap_or_else(|_| usage());
            out.push_str("domain join\n");
            trees_main(seed, cases, &mut out);
        }
        Some("run") if args.len() >= 3 => {
            out.push_str("domain join\n");
            run_file(&args[2], &mut out);
        }
        Some("shapes") => {
            for s in SHAPES {
                let ms: Vec<&str> = s.modes.iter().map(|&m| mode_name(m)).collect();
                let _ = writeln!(out, "{} | {} | {}", s.sid, s.members, ms.join(" "));
            }
        }
        _ => usage(),
    }
    flush(&mut out);
}
