//! h_join: join-domain transcripts from the real `specs` crate (no verification hook needed).
//! See /verif/docs/PROTOCOL_join.md. `tree` ops are answered with `nohook`.
macro_rules! if_h3 { ($($t:tt)*) => {} }
include!("body.rs");
