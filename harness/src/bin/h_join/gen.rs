// Generators: random worlds + ops (`gen`), exhaustive split trees (`trees`).

#[derive(Clone, Copy, PartialEq, Debug)]
enum Class { Tiny, Small, Mid, Big, Raw }

/// indices around the hibitset layer boundaries (64 = one layer-0 word, 4096 = one layer-1 word,
/// 262144 = one layer-2 word) and the ends of the index space
const BOUNDS: [u32; 27] = [
    0, 1, 62, 63, 64, 65, 127, 128, 4094, 4095, 4096, 4097, 8191, 8192, 262142, 262143, 262144, 262145,
    524287, 524288, MAXIDX - 262144, MAXIDX - 4096, MAXIDX - 64, MAXIDX - 63, MAXIDX - 2, MAXIDX - 1, MAXIDX,
];

fn class_name(c: Class) -> &'static str {
    match c { Class::Tiny => "tiny", Class::Small => "small", Class::Mid => "mid", Class::Big => "big", Class::Raw => "raw" }
}

fn pick_n(rng: &mut Rng, cl: Class) -> u32 {
    (match cl {
        Class::Tiny => match rng.below(5) { 0 => rng.range(0, 8), 1 | 2 => rng.range(60, 70), _ => rng.range(1, 70) },
        Class::Small => match rng.below(4) { 0 => rng.range(60, 135), _ => rng.range(20, 300) },
        Class::Mid => rng.range(4000, 4300),
        Class::Big => rng.range(262000, 300000),
        Class::Raw => rng.range(0, 24),
    }) as u32
}

/// Bernoulli(num/den) per index (scale <= 1) or alternating runs with the same density (scale > 1)
fn fill_prob(rng: &mut Rng, v: &mut [bool], num: u64, den: u64, scale: u64) {
    let n = v.len();
    if scale <= 1 {
        for x in v.iter_mut() { *x = rng.chance(num, den); }
        return;
    }
    let l = 20 * scale;
    let on_len = (2 * l * num / den).max(1);
    let off_len = (2 * l * (den - num) / den).max(1);
    let mut i = 0usize;
    let mut on = rng.chance(num, den);
    while i < n {
        let len = 1 + rng.below(if on { on_len } else { off_len }) as usize;
        let hi = (i + len).min(n);
        for x in &mut v[i..hi] { *x = on; }
        i = hi;
        on = !on;
    }
}

/// runs crossing every layer boundary below n, isolated boundary indices, a few word boundaries
fn fill_straddle(rng: &mut Rng, v: &mut [bool]) {
    let n = v.len() as u64;
    if n == 0 { return; }
    let mut set = |i: u64, v: &mut [bool]| { if i < n { v[i as usize] = true; } };
    let mut bs: Vec<u64> = vec![64, 4096, 262144];
    for _ in 0..rng.below(3) { bs.push(64 * rng.range(1, (n / 64).max(1))); }
    if n > 8192 { bs.push(4096 * rng.range(1, n / 4096)); }
    for b in bs {
        if b > n { continue; }
        match rng.below(5) {
            0 | 1 => {
                let lo = b - rng.range(1, 40).min(b);
                let hi = b + rng.below(40);
                for i in lo..=hi { set(i, v); }
            }
            2 => {
                let lo = b - rng.range(1, 70).min(b);
                let hi = b + rng.below(70);
                for i in lo..=hi { set(i, v); }
                set(b + 64 + rng.below(64), v);
                if b >= 100 { set(b - 66 - rng.below(30), v); }
            }
            3 => { set(b - 1, v); set(b, v); }
            _ => { if rng.chance(1, 2) { set(b - 1, v) } else { set(b, v) } }
        }
    }
    if rng.chance(1, 2) { set(0, v); }
    if rng.chance(1, 2) { set(n - 1, v); }
}

/// membership of one store / bit set over 0..n
fn gen_mask(rng: &mut Rng, n: usize, scale: u64, prev: &[Vec<bool>], dense_only: bool) -> Vec<bool> {
    let mut v = vec![false; n];
    let ws: [u32; 7] = if dense_only { [0, 3, 5, 2, 0, 1, 3] } else if scale <= 1 { [1, 2, 3, 3, 2, 3, 2] } else { [1, 1, 2, 1, 4, 5, 2] };
    match rng.weighted(&ws) {
        0 => {}
        1 => { for x in v.iter_mut() { *x = true; } }
        2 => fill_prob(rng, &mut v, 9, 10, scale),
        3 => fill_prob(rng, &mut v, 1, 2, scale),
        4 => fill_prob(rng, &mut v, 2, 100, scale),
        5 => fill_straddle(rng, &mut v),
        _ => {
            if prev.is_empty() { fill_prob(rng, &mut v, 1, 2, scale); }
            else {
                let p = &prev[rng.below(prev.len() as u64) as usize];
                for i in 0..n.min(p.len()) { v[i] = p[i]; }
            }
        }
    }
    v
}

fn gen_vals(rng: &mut Rng, k: usize, mem: &[bool], n: usize) -> Vec<(u32, i64)> {
    let kb = k as i64 * 1_000_003;
    let style = if k == 10 || k == 11 { 9 } else if n <= 5000 { rng.below(4) } else { rng.below(2) };
    let base = match style {
        0 => kb + rng.below(1000) as i64,
        1 => -kb - 2 * n as i64 - rng.below(1000) as i64,
        _ => kb,
    };
    let mut off = rng.below(1000) as i64;
    let mut out = Vec::new();
    for i in 0..n {
        if !mem[i] { continue; }
        let v = match style {
            0 | 1 => base + i as i64,
            2 => kb + rng.below(1000) as i64,
            3 => { if rng.chance(1, 8) { off = rng.below(1000) as i64; } kb + off + i as i64 }
            _ => 0,
        };
        out.push((i as u32, v));
    }
    out
}

/// `sparse_alive`: used by `trees` for its larger worlds (few alive entities, everything small);
/// `dense_only`: used by `trees` for its small worlds (no empty / sparse stores)
fn gen_setup(rng: &mut Rng, cl: Class, n: u32, sparse_alive: bool, dense_only: bool) -> Setup {
    let mut s = Setup::default();
    let nn = n as usize;
    let scale: u64 = if n > 5000 { (n / 3000) as u64 } else { 1 };
    // entities
    let mut alive = vec![true; nn];
    if sparse_alive {
        let mut extra = vec![false; nn];
        fill_prob(rng, &mut extra, 4, 100, 1);
        for v in alive.iter_mut() { *v = false; }
        fill_straddle(rng, &mut alive[..]);
        for i in 0..nn { alive[i] |= extra[i]; }
    } else {
        match rng.below(4) {
            0 => {}
            1 | 2 => fill_prob(rng, &mut alive, 9, 10, scale),
            _ => fill_prob(rng, &mut alive, 1, 2, scale),
        }
    }
    if nn > 0 { alive[nn - 1] = true; }
    let mut g2 = vec![false; nn];
    let mut g3 = vec![false; nn];
    fill_prob(rng, &mut g2, 2, 10, scale);
    fill_prob(rng, &mut g3, 1, 3, scale);
    for i in 0..nn {
        if alive[i] { s.ents.push((i as u32, if g2[i] { if g3[i] { 3 } else { 2 } } else { 1 })); }
    }
    // raised entities (half of the worlds): created atomically and not yet merged when the joins run.
    // 1..30% of the alive entities, both sides of the layer boundaries, generation > 1 (index reused) and,
    // when no index is dead, a top suffix of never-used indices (generation 1).
    if nn > 0 && rng.chance(1, 2) {
        let pct = rng.range(1, 30);
        let mut sel = vec![false; nn];
        fill_prob(rng, &mut sel, pct, 100, scale);
        for &b in &[64usize, 128, 4096, 8192, 262144] {
            if b >= nn { continue; }
            match rng.below(4) {
                0 => { sel[b - 1] = true; sel[b] = true; }
                1 => { let lo = b - (rng.range(1, 5) as usize).min(b); let hi = (b + rng.below(5) as usize).min(nn - 1); for i in lo..=hi { sel[i] = true; } }
                2 => { if rng.chance(1, 2) { sel[b - 1] = true; sel[b] = false; } else { sel[b - 1] = false; sel[b] = true; } }
                _ => {}
            }
        }
        let all_alive = alive.iter().all(|&a| a);
        let top_len = if all_alive && rng.chance(1, 2) { rng.range(1, (nn as u64).min(if nn > 5000 { 3000 } else { 40 })) as usize } else { 0 };
        let bump = if rng.chance(1, 4) { 3 } else { 2 };
        for e in s.ents.iter_mut() {
            let i = e.0 as usize;
            if i >= nn - top_len { e.1 = 1; s.raised.push((e.0, 1)); }
            else if sel[i] { if e.1 == 1 { e.1 = bump; } s.raised.push(*e); }
        }
        if s.raised.is_empty() {
            let j = rng.below(s.ents.len() as u64) as usize;
            if s.ents[j].1 == 1 { s.ents[j].1 = 2; }
            let e = s.ents[j];
            s.raised.push(e);
        }
    }
    // pending deletions (a third of the worlds): `Entities::delete` was called on 1..20% of the alive entities
    // and no `maintain()` has run yet. Boundary indices included; sometimes biased towards the raised entities
    // (created and deleted atomically in the same frame).
    if nn > 0 && rng.chance(1, 3) {
        let pct = rng.range(1, 20);
        let mut sel = vec![false; nn];
        fill_prob(rng, &mut sel, pct, 100, scale);
        for &b in &[64usize, 128, 4096, 8192, 262144] {
            if b >= nn { continue; }
            match rng.below(4) {
                0 => { sel[b - 1] = true; sel[b] = true; }
                1 => { let lo = b - (rng.range(1, 5) as usize).min(b); let hi = (b + rng.below(5) as usize).min(nn - 1); for i in lo..=hi { sel[i] = true; } }
                2 => { if rng.chance(1, 2) { sel[b - 1] = true; sel[b] = false; } else { sel[b - 1] = false; sel[b] = true; } }
                _ => {}
            }
        }
        if !s.raised.is_empty() {
            match rng.below(3) {
                0 => { for &(i, _) in &s.raised { if rng.chance(1, 2) { sel[i as usize] = true; } } }
                1 => { for &(i, _) in &s.raised { sel[i as usize] = false; } }
                _ => {}
            }
        }
        for e in s.ents.iter() { if sel[e.0 as usize] { s.killed.push(*e); } }
        if s.killed.is_empty() {
            let e = s.ents[rng.below(s.ents.len() as u64) as usize];
            s.killed.push(e);
        }
    }
    // stores
    let mut prev: Vec<Vec<bool>> = Vec::new();
    for k in 0..16 {
        let mut m = if sparse_alive {
            let mut v = vec![false; nn];
            match rng.below(4) {
                0 => fill_prob(rng, &mut v, 3, 100, 1),
                1 => { for x in v.iter_mut() { *x = true; } }
                2 if !prev.is_empty() => { let p = &prev[rng.below(prev.len() as u64) as usize]; v.copy_from_slice(p); }
                _ => fill_straddle(rng, &mut v),
            }
            v
        } else { gen_mask(rng, nn, scale, &prev, dense_only) };
        if k < 14 { for i in 0..nn { m[i] &= alive[i]; } }
        s.stores[k] = gen_vals(rng, k, &m, nn);
        prev.push(m);
    }
    // raw bit sets
    for b in 0..4 {
        let mut v: Vec<u32> = Vec::new();
        if cl == Class::Raw {
            match rng.below(8) {
                0 => {}
                1 if b > 0 => v = s.bits[b - 1].clone(),
                _ => {
                    for &x in BOUNDS.iter() { if rng.chance(1, 2) { v.push(x); } }
                    for _ in 0..rng.below(4) {
                        let lo = if rng.chance(2, 3) {
                            let bnd = [64u64, 4096, 8192, 262144, 524288, 1 << 23, 1 << 24][rng.below(7) as usize];
                            bnd - rng.range(1, 90).min(bnd)
                        } else { rng.below(1 << 24) };
                        let len = 1 + rng.below(200);
                        for i in lo..(lo + len).min(1 << 24) { v.push(i as u32); }
                    }
                    for _ in 0..rng.below(20) { v.push(rng.below(1 << 24) as u32); }
                    for i in 0..n + 4 { if rng.chance(1, 2) { v.push(i); } }
                }
            }
        } else {
            let len = nn + 8;
            let m = if sparse_alive {
                let mut v = vec![false; len];
                if rng.chance(1, 2) { fill_straddle(rng, &mut v) } else { for x in v.iter_mut() { *x = true; } }
                v
            } else { gen_mask(rng, len, scale, &prev, dense_only) };
            for i in 0..len { if m[i] { v.push(i as u32); } }
            if rng.chance(1, 4) {
                for _ in 0..rng.range(1, 3) { v.push(BOUNDS[rng.below(BOUNDS.len() as u64) as usize]); }
            }
            prev.push(m);
        }
        v.sort();
        v.dedup();
        s.bits[b] = v;
    }
    s.normalise();
    s
}

fn rand_tree(rng: &mut Rng, d: usize, num: u64, s: &mut String) {
    if d == 0 || !rng.chance(num, 100) { s.push('L'); return; }
    s.push('S');
    rand_tree(rng, d - 1, num, s);
    rand_tree(rng, d - 1, num, s);
}

fn pick_idx(rng: &mut Rng, n: u32, s: &Setup) -> u32 {
    match rng.below(6) {
        0 => {
            let c: Vec<u32> = BOUNDS.iter().copied().filter(|&b| b < n).collect();
            if c.is_empty() { rng.below(n.max(1) as u64) as u32 } else { c[rng.below(c.len() as u64) as usize] }
        }
        1 => {
            let b = &s.bits[rng.below(4) as usize];
            if b.is_empty() { rng.below(n.max(1) as u64) as u32 } else { b[rng.below(b.len() as u64) as usize] }
        }
        _ => rng.below(n.max(1) as u64) as u32,
    }
}

fn gen_op(rng: &mut Rng, cl: Class, n: u32, s: &Setup, gens: &[i32], h3: bool) -> JoinOp {
    // shape
    let ws: Vec<u32> = SHAPES.iter().map(|sh| {
        let destructive = sh.members.split(' ').any(|m| m.starts_with('d') || m.starts_with('c'));
        let mut w = if destructive { 1 } else if sh.unconstrained() { 2 } else { 4 };
        if cl == Class::Raw && sh.has_bits() { w *= 6; }
        // worlds with raised entities: favour the shapes that join over `&entities`
        if !s.raised.is_empty() && sh.members.split(' ').any(|m| m.trim_start_matches('?') == "e") { w *= 3; }
        // worlds with pending deletions: favour `&entities` and restricted members
        if !s.killed.is_empty() && sh.members.split(' ').any(|m| { let m = m.trim_start_matches('?'); m == "e" || m.starts_with('r') || m.starts_with('w') }) { w *= 3; }
        w
    }).collect();
    let sh = &SHAPES[rng.weighted(&ws)];
    // mode
    let modes: Vec<Mode> = sh.modes.iter().copied().filter(|&m| {
        if m == Mode::Unc { return false; }
        if m == Mode::Tree && !h3 { return false; }
        if cl == Class::Big && m == Mode::LendGet && sh.arity() >= 15 { return false; }
        true
    }).collect();
    let mode = modes[rng.below(modes.len() as u64) as usize];
    let mut op = JoinOp::new(sh.sid, mode);
    match mode {
        Mode::Seq | Mode::Lend => {
            if sh.unconstrained() {
                let t = match rng.below(4) { 0 => [0u64, 1, 2, 63, 64, 65, 128][rng.below(7) as usize], _ => rng.range(0, 300) };
                op.opt("take", &t.to_string()).unwrap();
            } else if rng.chance(1, 4) {
                let t = rng.below(n.min(300) as u64 + 2);
                op.opt("take", &t.to_string()).unwrap();
            }
        }
        Mode::LendGetW => {
            // few distinct entities, looked up repeatedly (current and stale generations)
            let mut hp = String::new();
            let k = rng.range(1, 3) as usize;
            let base: Vec<u32> = (0..k).map(|_| if rng.chance(1, 12) { n + rng.below(2) as u32 } else { pick_idx(rng, n, s) }).collect();
            for j in 0..rng.range(2, 7) {
                let i = base[rng.below(k as u64) as usize];
                let cur = if (i as usize) < gens.len() { gens[i as usize] } else { 0 };
                let g = if cur > 0 { match rng.below(8) { 0 => cur - 1, 1 => cur + 1, _ => cur } } else { 1 };
                if j > 0 { hp.push(','); }
                let _ = write!(hp, "{}:{}", i, g.max(1));
            }
            op.opt("probes", &hp).unwrap();
        }
        Mode::LendGet => {
            let mut hp = String::new();
            for j in 0..rng.range(1, 8) {
                let i = if rng.chance(1, 10) { n + rng.below(3) as u32 } else { pick_idx(rng, n, s) };
                let cur = if (i as usize) < gens.len() { gens[i as usize] } else { 0 };
                let g = if cur > 0 {
                    match rng.below(10) { 0 | 1 => cur - 1, 2 => cur + 1, _ => cur }
                } else { match rng.below(6) { 0 => 2, _ => 1 } };
                if j > 0 { hp.push(','); }
                let _ = write!(hp, "{}:{}", i, g);
            }
            let mut up = String::new();
            for j in 0..rng.range(0, 6) {
                let i = match rng.below(8) { 0 => n + rng.below(5) as u32, 1 => MAXIDX, 2 => BOUNDS[rng.below(BOUNDS.len() as u64) as usize], _ => pick_idx(rng, n, s) };
                if j > 0 { up.push(','); }
                let _ = write!(up, "{}", i);
            }
            if up.is_empty() { op.opt("probes", &hp).unwrap(); }
            else if rng.chance(1, 2) { op.opt("probes", &hp).unwrap(); op.opt("uprobes", &up).unwrap(); }
            else { op.opt("uprobes", &up).unwrap(); op.opt("probes", &hp).unwrap(); }
        }
        Mode::Par => {
            let pool = [1usize, 2, 3, 8, 16, 64, 128][rng.below(7) as usize];
            let via = ["foreach", "map", "collect"][rng.below(3) as usize];
            op.opt("pool", &pool.to_string()).unwrap();
            op.opt("via", via).unwrap();
        }
        Mode::Tree => {
            let maxd = if matches!(cl, Class::Mid | Class::Big) { 12 } else { 6 };
            let d = rng.range(0, maxd) as usize;
            let mut t = String::new();
            if rng.chance(1, 10) { for _ in 0..d { t.push('S'); } if t.is_empty() { t.push('L'); } }
            else { let num = rng.range(55, 97); rand_tree(rng, d, num, &mut t); }
            op.opt("tree", &t).unwrap();
        }
        _ => {}
    }
    op
}

fn gens_of(s: &Setup) -> Vec<i32> {
    let n = s.ents.last().map(|e| e.0 + 1).unwrap_or(0);
    let mut g = vec![0i32; n as usize];
    for &(i, gg) in &s.ents { g[i as usize] = gg; }
    g
}

fn gen_main(seed: u64, cases: usize, class: &str, h3: bool, out: &mut String) {
    let mut master = Rng::new(seed);
    for c in 0..cases {
        let sub = master.next();
        let mut rng = Rng::new(sub);
        let cl = match class {
            "tiny" => Class::Tiny, "small" => Class::Small, "mid" => Class::Mid, "big" => Class::Big, "raw" => Class::Raw,
            _ => [Class::Tiny, Class::Small, Class::Raw, Class::Mid, Class::Big][rng.weighted(&[30, 30, 20, 15, 5])],
        };
        let n = pick_n(&mut rng, cl);
        // "rich" worlds: only full / dense / half / straddle / same-as stores, so that wide joins are non-empty
        let rich = rng.chance(match cl { Class::Big => 15, Class::Mid => 35, _ => 50 }, 100);
        let setup = gen_setup(&mut rng, cl, n, false, rich);
        let n = setup.ents.last().map(|e| e.0 + 1).unwrap_or(0);
        let _ = writeln!(out, "case {}-{}-{}", class_name(cl), c, sub);
        setup.print(out);
        let mut h = build_world(&setup);
        caps(out);
        flush(out);
        let gens = gens_of(&setup);
        let nops = match cl { Class::Mid => rng.range(6, 10), Class::Big => rng.range(3, 5), _ => rng.range(10, 30) };
        for _ in 0..nops {
            let op = gen_op(&mut rng, cl, n, &setup, &gens, h3);
            exec_op(&mut h, &op, out);
            flush(out);
        }
    }
}

/// all split trees of depth <= d as preorder strings (T(0)=1, T(d)=1+T(d-1)^2; T(4)=677)
fn all_trees(d: usize) -> Vec<String> {
    if d == 0 { return vec!["L".to_string()]; }
    let sub = all_trees(d - 1);
    let mut v = vec!["L".to_string()];
    for l in &sub { for r in &sub { v.push(format!("S{}{}", l, r)); } }
    v
}

fn trees_main(seed: u64, cases: usize, out: &mut String) {
    let mut h3 = false;
    if_h3! { h3 = true; }
    if !h3 { die("`trees` needs the hook: use h_join_h3"); }
    let trees = all_trees(4);
    // par-capable shapes whose items reveal their index (S37 = two null stores does not)
    let par_shapes: Vec<&Shape> = SHAPES.iter().filter(|s| s.supports(Mode::Tree) && s.sid != "S37").collect();
    let mut master = Rng::new(seed);
    for c in 0..cases {
        let sub = master.next();
        let mut rng = Rng::new(sub);
        let large = rng.chance(1, 3);
        let n = if large { rng.range(4097, 4200) as u32 } else { rng.range(100, 300) as u32 };
        let setup = gen_setup(&mut rng, Class::Small, n, large, !large);
        let _ = writeln!(out, "case trees-{}-{}", c, sub);
        setup.print(out);
        let mut h = build_world(&setup);
        caps(out);
        flush(out);
        let mut chosen: Vec<&Shape> = Vec::new();
        let has_e = |sh: &Shape| sh.members.split(' ').any(|m| m.trim_start_matches('?') == "e");
        while chosen.len() < 3 {
            let sh = par_shapes[rng.below(par_shapes.len() as u64) as usize];
            // worlds with raised entities: the first two shapes join over `&entities`
            if !setup.raised.is_empty() && chosen.len() < 2 && !has_e(sh) { continue; }
            // worlds with pending deletions: the first shape joins over `&entities` or a restricted storage
            if !setup.killed.is_empty() && chosen.is_empty() && !(has_e(sh) || sh.members.split(' ').any(|m| m.starts_with('r') || m.starts_with('w'))) { continue; }
            if !chosen.iter().any(|c| c.sid == sh.sid) { chosen.push(sh); }
        }
        for sh in chosen {
            for t in &trees {
                let mut op = JoinOp::new(sh.sid, Mode::Tree);
                op.opt("tree", t).unwrap();
                exec_op(&mut h, &op, out);
                if out.len() > 1 << 16 { flush(out); }
            }
            flush(out);
        }
    }
}
