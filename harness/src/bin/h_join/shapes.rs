// Catalogue of statically typed join shapes.
//   fn-name  sid  members (PROTOCOL.md tokens)  [supported modes; `unc` = unconstrained, only with take=N]
//   |x| { prelude: fetch storages etc. }  =>  the joined expression
// Stores: 0,1 vec  2,3 dense  4,5 hash  6,7 btree  8,9 dvec  10,11 null  12 flagged<vec>  13 flagged<dense>  14,15 ChangeSet

shapes! {
    // ---- arity 1: every storage kind in & and &mut position, entities, bit sets ------------------------------
    s01 "S01" "s0" [seq lend lendfe lendget lendgetw par tree]
        |x| { R!(x a C0); } => (&a,);
    s02 "S02" "m2" [seq lend lendfe lendget lendgetw par tree]
        |x| { W!(x a C2); } => (&mut a,);
    // bare (non-tuple) join of a single storage
    s03 "S03" "s4" [seq lend lendfe lendget lendgetw par tree]
        |x| { R!(x a C4); } => &a;
    s04 "S04" "m6" [seq lend lendfe lendget lendgetw par tree]
        |x| { W!(x a C6); } => (&mut a,);
    s05 "S05" "s8" [seq lend lendfe lendget lendgetw par tree]
        |x| { R!(x a C8); } => (&a,);
    s06 "S06" "m10 e" [seq lend lendfe lendget lendgetw par tree]
        |x| { W!(x a C10); E!(x en); } => (&mut a, &en);
    s07 "S07" "s12" [seq lend lendfe lendget lendgetw par tree]
        |x| { R!(x a C12); } => (&a,);
    s08 "S08" "m13" [seq lend lendfe lendget lendgetw]
        |x| { W!(x a C13); } => (&mut a,);
    s09 "S09" "e" [seq lend lendfe lendget lendgetw par tree]
        |x| { E!(x en); } => (&en,);
    s10 "S10" "Bb0" [seq lend lendfe lendget lendgetw par tree]
        |x| { } => (&x.b0,);
    s11 "S11" "BM3" [seq lend lendfe lendget lendgetw par tree]
        |x| { R!(x a C3); } => (a.mask(),);
    s12 "S12" "BAb0b1" [seq lend lendfe lendget lendgetw par tree]
        |x| { } => (BitSetAnd(&x.b0, &x.b1),);
    // &BitSetOr<..> (reference form)
    s13 "S13" "BOb0M5" [seq lend lendfe lendget lendgetw par tree]
        |x| { R!(x a C5); let o = BitSetOr(&x.b0, a.mask()); } => (&o,);
    s14 "S14" "BXb1b2" [seq lend lendfe lendget lendgetw par tree]
        |x| { } => (BitSetXor(&x.b1, &x.b2),);
    s15 "S15" "BAb0NM3" [seq lend lendfe lendget lendgetw par tree]
        |x| { R!(x a C3); } => (BitSetAnd(&x.b0, BitSetNot(a.mask())),);
    // ---- unconstrained shapes (2^24 indices): only with take=N -----------------------------------------------
    s16 "S16" "BNb0" [seq lend lendget unc]

        |x| { } => (BitSetNot(&x.b0),);
    s17 "S17" "?s0" [seq lend lendget unc]

        |x| { R!(x a C0); } => ((&a).maybe(),);
    s18 "S18" "n2 ?s0" [seq lend lendget unc]

        |x| { R!(x a C2); R!(x b C0); } => (!&a, (&b).maybe());
    s19 "S19" "??s1 ?Bb2" [seq lend lendget unc]

        |x| { R!(x a C1); } => ((&a).maybe().maybe(), (&x.b2).maybe());
    s20 "S20" "t2" [lend lendget unc]

        |x| { W!(x a C2); } => (a.entries(),);
    // ---- arity 2 -----------------------------------------------------------------------------------------
    s21 "S21" "s0 s1" [seq lend lendfe lendget lendgetw par tree]
        |x| { R!(x a C0); R!(x b C1); } => (&a, &b);
    s22 "S22" "s0 m3" [seq lend lendfe lendget lendgetw par tree]
        |x| { R!(x a C0); W!(x b C3); } => (&a, &mut b);
    s23 "S23" "m4 n6" [seq lend lendfe lendget lendgetw par tree]
        |x| { W!(x a C4); R!(x b C6); } => (&mut a, !&b);
    s24 "S24" "e ?m1" [seq lend lendfe lendget lendgetw par tree]
        |x| { E!(x en); W!(x a C1); } => (&en, (&mut a).maybe());
    s25 "S25" "s9 Bb1" [seq lend lendfe lendget lendgetw par tree]
        |x| { R!(x a C9); } => (&a, &x.b1);
    s26 "S26" "r0 s2" [seq lend lendfe lendget lendgetw par tree]
        |x| { R!(x a C0); R!(x b C2); let ra = a.restrict(); } => (&ra, &b);
    s27 "S27" "w1 e" [seq lend lendfe lendget lendgetw par tree]
        |x| { W!(x a C1); E!(x en); let mut wa = a.restrict_mut(); } => (&mut wa, &en);
    s28 "S28" "w12 s0" [seq lend lendfe lendget lendgetw]
        |x| { W!(x a C12); R!(x b C0); let mut wa = a.restrict_mut(); } => (&mut wa, &b);
    s29 "S29" "d3" [seq lend lendfe]

        |x| { W!(x a C3); } => (a.drain(),);
    s30 "S30" "d5 e" [seq lend lendfe]

        |x| { W!(x a C5); E!(x en); } => (a.drain(), &en);
    s31 "S31" "t0 e" [lend lendfe lendget lendgetw]
        |x| { W!(x a C0); E!(x en); } => (a.entries(), &en);
    s32 "S32" "t7 s6" [lend lendfe lendget lendgetw]
        |x| { W!(x a C7); R!(x b C6); } => (a.entries(), &b);
    s33 "S33" "s14" [seq lend lendfe lendget lendgetw]
        |x| { } => (&x.cs14,);
    s34 "S34" "m15 e" [seq lend lendfe lendget lendgetw]
        |x| { E!(x en); } => (&mut x.cs15, &en);
    s35 "S35" "c14 s0" [seq lend lendfe]

        |x| { R!(x a C0); } => (std::mem::take(&mut x.cs14), &a);
    s36 "S36" "m0 s14" [seq lend lendfe lendget lendgetw]
        |x| { W!(x a C0); } => (&mut a, &x.cs14);
    s37 "S37" "m11 s10" [seq lend lendfe lendget lendgetw par tree]
        |x| { W!(x a C11); R!(x b C10); } => (&mut a, &b);
    s38 "S38" "d13 s12" [seq lend lendfe]

        |x| { W!(x a C13); R!(x b C12); } => (a.drain(), &b);
    // ---- arity 3 -----------------------------------------------------------------------------------------
    s39 "S39" "s0 m2 n4" [seq lend lendfe lendget lendgetw par tree]
        |x| { R!(x a C0); W!(x b C2); R!(x c C4); } => (&a, &mut b, !&c);
    s40 "S40" "e s5 ?s7" [seq lend lendfe lendget lendgetw par tree]
        |x| { E!(x en); R!(x a C5); R!(x b C7); } => (&*en, &a, (&b).maybe());
    s41 "S41" "m9 BOb0b3 s11" [seq lend lendfe lendget lendgetw par tree]
        |x| { W!(x a C9); R!(x b C11); } => (&mut a, BitSetOr(&x.b0, &x.b3), &b);
    s42 "S42" "s13 m12 e" [seq lend lendfe lendget lendgetw]
        |x| { R!(x a C13); W!(x b C12); E!(x en); } => (&a, &mut b, &en);
    s43 "S43" "BNb2 s6 ?n8" [seq lend lendfe lendget lendgetw par tree]
        |x| { R!(x a C6); R!(x b C8); let nb = BitSetNot(&x.b2); } => (&nb, &a, (!&b).maybe());
    s44 "S44" "c15 m14 Bb0" [seq lend lendfe]

        |x| { } => (std::mem::take(&mut x.cs15), &mut x.cs14, &x.b0);
    // ---- arity 5 -----------------------------------------------------------------------------------------
    s45 "S45" "e s0 m3 ?s5 n7" [seq lend lendfe lendget lendgetw par tree]
        |x| { E!(x en); R!(x a C0); W!(x b C3); R!(x c C5); R!(x d C7); }
        => (&en, &a, &mut b, (&c).maybe(), !&d);
    s46 "S46" "s1 s2 BM4 r6 m8" [seq lend lendfe lendget lendgetw par tree]
        |x| { R!(x a C1); R!(x b C2); R!(x c C4); R!(x d C6); W!(x f C8); let rd = d.restrict(); }
        => (&a, &b, c.mask(), &rd, &mut f);
    s47 "S47" "m12 s13 ?m0 w2 d4" [seq lend lendfe]

        |x| { W!(x a C12); R!(x b C13); W!(x c C0); W!(x d C2); W!(x f C4); let mut wd = d.restrict_mut(); }
        => (&mut a, &b, (&mut c).maybe(), &mut wd, f.drain());
    s48 "S48" "t1 e s14 ?m15 n0" [lend lendfe lendget lendgetw]
        |x| { W!(x a C1); E!(x en); R!(x b C0); }
        => (a.entries(), &en, &x.cs14, (&mut x.cs15).maybe(), !&b);
    // ---- arity 8 -----------------------------------------------------------------------------------------
    s49 "S49" "e s0 s1 m2 m3 ?s4 n5 Bb0" [seq lend lendfe lendget lendgetw par tree]
        |x| { E!(x en); R!(x a C0); R!(x b C1); W!(x c C2); W!(x d C3); R!(x f C4); R!(x g C5); }
        => (&en, &a, &b, &mut c, &mut d, (&f).maybe(), !&g, &x.b0);
    s50 "S50" "s6 m7 r8 w9 ?m10 n11 BAM0M1 e" [seq lend lendfe lendget lendgetw par tree]
        |x| { R!(x a C6); W!(x b C7); R!(x c C8); W!(x d C9); W!(x f C10); R!(x g C11); R!(x p C0); R!(x q C1); E!(x en);
              let rc = c.restrict(); let mut wd = d.restrict_mut(); }
        => (&a, &mut b, &rc, &mut wd, (&mut f).maybe(), !&g, BitSetAnd(p.mask(), q.mask()), &en);
    s51 "S51" "s12 m13 t0 ?s14 m15 e n1 BNb3" [lend lendfe lendget lendgetw]
        |x| { R!(x a C12); W!(x b C13); W!(x c C0); E!(x en); R!(x d C1); }
        => (&a, &mut b, c.entries(), (&x.cs14).maybe(), &mut x.cs15, &en, !&d, BitSetNot(&x.b3));
    // ---- arity 15 ----------------------------------------------------------------------------------------
    s52 "S52" "s0 s0 e s1 ?s2 n3 m4 s5 ?m6 Bb0 BM7 s8 s8 n11 e" [seq lend lendfe lendget lendgetw par tree]
        |x| { R!(x a C0); E!(x en); R!(x b C1); R!(x c C2); R!(x d C3); W!(x f C4); R!(x g C5); W!(x p C6);
              R!(x q C7); R!(x r C8); R!(x s C11); }
        => (&a, &a, &en, &b, (&c).maybe(), !&d, &mut f, &g, (&mut p).maybe(), &x.b0, q.mask(), &r, &r, !&s, &en);
    s53 "S53" "s12 s0 m13 s14 ?s15 e s1 s1 n2 ?n3 r4 w5 BOb0b1 ?Bb2 s10" [seq lend lendfe lendget lendgetw]
        |x| { R!(x a C12); R!(x b C0); W!(x c C13); E!(x en); R!(x d C1); R!(x f C2); R!(x g C3); R!(x p C4);
              W!(x q C5); R!(x r C10); let rp = p.restrict(); let mut wq = q.restrict_mut(); }
        => (&a, &b, &mut c, &x.cs14, (&x.cs15).maybe(), &en, &d, &d, !&f, (!&g).maybe(), &rp, &mut wq,
            BitSetOr(&x.b0, &x.b1), (&x.b2).maybe(), &r);
    // ---- arity 16 ----------------------------------------------------------------------------------------
    s54 "S54" "e s0 s0 s1 s1 m2 ?s3 n4 s5 ?m6 s7 s8 s9 s10 BM0 BNb1" [seq lend lendfe lendget lendgetw par tree]
        |x| { E!(x en); R!(x a C0); R!(x b C1); W!(x c C2); R!(x d C3); R!(x f C4); R!(x g C5); W!(x p C6);
              R!(x q C7); R!(x r C8); R!(x s C9); R!(x t C10); }
        => (&en, &a, &a, &b, &b, &mut c, (&d).maybe(), !&f, &g, (&mut p).maybe(), &q, &r, &s, &t, a.mask(),
            BitSetNot(&x.b1));
    s55 "S55" "s0 m12 s13 s14 m15 e e ?s1 ??s2 n3 r4 w5 s6 s7 BXb0b1 s10" [seq lend lendfe lendget lendgetw]
        |x| { R!(x a C0); W!(x b C12); R!(x c C13); E!(x en); R!(x d C1); R!(x f C2); R!(x g C3); R!(x p C4);
              W!(x q C5); R!(x r C6); R!(x s C7); R!(x t C10); let rp = p.restrict(); let mut wq = q.restrict_mut(); }
        => (&a, &mut b, &c, &x.cs14, &mut x.cs15, &en, &*en, (&d).maybe(), (&f).maybe().maybe(), !&g, &rp, &mut wq,
            &r, &s, BitSetXor(&x.b0, &x.b1), &t);
    s56 "S56" "t3 e s0 s1 s2 ?m4 n5 s6 s7 s8 s9 ?s10 s11 s12 ?m13 Bb3" [lend lendfe lendget lendgetw]
        |x| { W!(x a C3); E!(x en); R!(x b C0); R!(x c C1); R!(x d C2); W!(x f C4); R!(x g C5); R!(x p C6);
              R!(x q C7); R!(x r C8); R!(x s C9); R!(x t C10); R!(x u C11); R!(x v C12); W!(x w C13); }
        => (a.entries(), &en, &b, &c, &d, (&mut f).maybe(), !&g, &p, &q, &r, &s, (&t).maybe(), &u, &v,
            (&mut w).maybe(), &x.b3);
}
