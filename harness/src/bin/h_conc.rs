//! h_conc: shared-access phase of a real `specs::World` (property C10).
//!
//! Real OS threads run programs of `Entities::create / create_iter / delete / is_alive / join`
//! and `LazyUpdate::exec` calls against one `World`. A controller serialises them at the yield
//! points of source hook H1 (`specs::world::verif`, `--cfg specs_verif`) so that they follow a
//! GIVEN schedule (token passing, Mutex + Condvar): one schedule entry = one thread runs from the
//! yield point it is blocked at to its next yield point (or to the end of its call). A schedule
//! entry naming a finished / unknown thread is a no-op; when the schedule is exhausted the
//! lowest-numbered unfinished thread runs (deterministic drain). The Lean small-step model
//! (SpecsModel/Conc/Model.lean) executes the same schedule; Driver/ConcDom.lean compares.
//!
//!   h_conc exh <threads> <calls> [<hist> [<pset> [<shard> <nshards>]]]   all schedules of built-in tiny programs
//!   h_conc gen <seed> <cases> <maxthreads> <maxcalls>                    random histories, programs, schedules
//!   h_conc stress <seed> <threads> <calls>                               no scheduler: real preemption, postconditions only
//!   h_conc run <file>                                                    cases from a file (`case`, `init`, `prog`, `sched` lines)
//!   h_conc sets                                                          list built-in histories / program sets
//!
//! Transcript per case:
//!   case <id>
//!   init <world-domain op | lazy <tag>> => <res>      sequential prefix (creates the frozen allocator)
//!   threads <n>
//!   prog <t> <call>...       call = create | create_iter:<n> | del:@k | alive:@k | join | lazy:<tag>
//!   sched <t>...
//!   ev <t> create => e i:g t|f        (second token: is_alive asked by the creator right after the return)
//!   ev <t> del @k i:g => ok|err       ev <t> alive @k i:g => t|f      (`skip` when the log is empty)
//!   ev <t> join => es i:g...          ev <t> lazy <tag> => ok
//!   info ticks=.. cas_fail=.. pops=.. switches=..
//!   maintain => ok        ejoin => es i:g...        lazylog => tags <tag>...
use specs::prelude::*;
use specs::world::verif;
use std::cell::Cell;
use std::fmt::Write as _;
use std::io::Write as _;
use std::panic::{catch_unwind, resume_unwind, AssertUnwindSafe};
use std::sync::{Condvar, Mutex};
use std::time::{Duration, Instant};
use vh::rng::Rng;

// ------------------------------------------------------------------------------------ initial history
// Sequential entity ops of the phase's prefix (grammar of DESIGN Appendix B, entity part). Kept
// inside this binary on purpose: h_conc depends on the shared harness library for `Rng` only.

#[derive(Clone, Debug, PartialEq)]
enum Op {
    Create { atomic: bool, dropped: bool },
    CreateIter { atomic: bool, n: usize },
    DelNow(usize),
    DelBatch(Vec<usize>),
    DelAtomic(usize),
    DelAll,
    Maintain,
    Alive(usize),
    WAlive(usize),
    EJoin,
}

fn show_op(op: &Op) -> String {
    match op {
        Op::Create { atomic, dropped } => format!(
            "create {}{}",
            if *atomic { "atomic" } else { "now" },
            if *dropped { "_dropped" } else { "" }
        ),
        Op::CreateIter { atomic, n } => format!("create_iter {} {}", if *atomic { "atomic" } else { "now" }, n),
        Op::DelNow(h) => format!("del_now @{}", h),
        Op::DelBatch(hs) => {
            let mut s = String::from("del_batch");
            for h in hs {
                write!(s, " @{}", h).unwrap();
            }
            s
        }
        Op::DelAtomic(h) => format!("del_atomic @{}", h),
        Op::DelAll => "del_all".into(),
        Op::Maintain => "maintain".into(),
        Op::Alive(h) => format!("alive @{}", h),
        Op::WAlive(h) => format!("walive @{}", h),
        Op::EJoin => "ejoin".into(),
    }
}

fn slot(s: &str) -> Option<usize> {
    s.strip_prefix('@')?.parse().ok()
}

fn parse_op(line: &str) -> Option<Op> {
    let l = line.split(" => ").next().unwrap().trim();
    let ts: Vec<&str> = l.split_whitespace().collect();
    Some(match ts.as_slice() {
        ["create", "now"] => Op::Create { atomic: false, dropped: false },
        ["create", "now_dropped"] => Op::Create { atomic: false, dropped: true },
        ["create", "atomic"] => Op::Create { atomic: true, dropped: false },
        ["create", "atomic_dropped"] => Op::Create { atomic: true, dropped: true },
        ["create_iter", "now", n] => Op::CreateIter { atomic: false, n: n.parse().ok()? },
        ["create_iter", "atomic", n] => Op::CreateIter { atomic: true, n: n.parse().ok()? },
        ["del_now", h] => Op::DelNow(slot(h)?),
        ["del_batch", hs @ ..] => Op::DelBatch(hs.iter().map(|h| slot(h)).collect::<Option<_>>()?),
        ["del_atomic", h] => Op::DelAtomic(slot(h)?),
        ["del_all"] => Op::DelAll,
        ["maintain"] => Op::Maintain,
        ["alive", h] => Op::Alive(slot(h)?),
        ["walive", h] => Op::WAlive(slot(h)?),
        ["ejoin"] => Op::EJoin,
        _ => return None,
    })
}

fn show_entity(e: Entity) -> String {
    format!("{}:{}", e.id(), e.gen().id())
}

/// A real `World` plus the log of handles returned so far (`@k` = `log[k % log.len()]`).
struct Exec {
    world: World,
    log: Vec<Entity>,
}

impl Exec {
    fn new() -> Self {
        Exec { world: World::new(), log: Vec::new() }
    }

    fn resolve(&self, k: usize) -> Option<Entity> {
        if self.log.is_empty() { None } else { Some(self.log[k % self.log.len()]) }
    }

    /// Executes one op on the real world; returns the result tokens.
    fn exec(&mut self, op: &Op) -> String {
        match catch_unwind(AssertUnwindSafe(|| self.exec_inner(op))) {
            Ok(s) => s,
            Err(_) => "panic".into(),
        }
    }

    fn exec_inner(&mut self, op: &Op) -> String {
        match op {
            Op::Create { atomic: false, dropped } => {
                let e = if *dropped {
                    let b = self.world.create_entity();
                    let e = b.entity;
                    drop(b);
                    e
                } else {
                    self.world.create_entity().build()
                };
                self.log.push(e);
                format!("e {}", show_entity(e))
            }
            Op::Create { atomic: true, dropped } => {
                let e = {
                    let ents = self.world.entities();
                    if *dropped {
                        let b = ents.build_entity();
                        let e = b.entity;
                        drop(b);
                        e
                    } else {
                        ents.create()
                    }
                };
                self.log.push(e);
                format!("e {}", show_entity(e))
            }
            Op::CreateIter { atomic, n } => {
                let es: Vec<Entity> = if *atomic {
                    let ents = self.world.entities();
                    let v = ents.create_iter().take(*n).collect();
                    v
                } else {
                    self.world.create_iter().take(*n).collect()
                };
                let mut s = String::from("es");
                for e in &es {
                    write!(s, " {}", show_entity(*e)).unwrap();
                }
                self.log.extend(es);
                s
            }
            Op::DelNow(h) => match self.resolve(*h) {
                None => "skip".into(),
                Some(e) => match self.world.delete_entity(e) {
                    Ok(()) => "ok".into(),
                    Err(_) => "err".into(),
                },
            },
            Op::DelBatch(hs) => {
                if self.log.is_empty() {
                    return "skip".into();
                }
                let es: Vec<Entity> = hs.iter().map(|h| self.resolve(*h).unwrap()).collect();
                match self.world.delete_entities(&es) {
                    Ok(()) => "ok".into(),
                    Err((_, pos)) => format!("err {}", pos),
                }
            }
            Op::DelAtomic(h) => match self.resolve(*h) {
                None => "skip".into(),
                Some(e) => match self.world.entities().delete(e) {
                    Ok(()) => "ok".into(),
                    Err(_) => "err".into(),
                },
            },
            Op::DelAll => {
                self.world.delete_all();
                "ok".into()
            }
            Op::Maintain => {
                self.world.maintain();
                "ok".into()
            }
            Op::Alive(h) => match self.resolve(*h) {
                None => "skip".into(),
                Some(e) => {
                    let ents = self.world.entities();
                    if ents.is_alive(e) { "t".into() } else { "f".into() }
                }
            },
            Op::WAlive(h) => match self.resolve(*h) {
                None => "skip".into(),
                Some(e) => if self.world.is_alive(e) { "t".into() } else { "f".into() },
            },
            Op::EJoin => {
                let ents = self.world.entities();
                let mut s = String::from("es");
                for e in (&*ents).join() {
                    write!(s, " {}", show_entity(e)).unwrap();
                }
                s
            }
        }
    }
}

/// Random sequential history; weights tilted toward create -> delete -> reuse cycles.
fn gen_script(rng: &mut Rng, len: usize) -> Vec<Op> {
    let mut ops = Vec::with_capacity(len);
    let mut nlog: usize = 0;
    let w_maint = *rng.pick(&[2u32, 6, 12]);
    for _ in 0..len {
        let ws = [10, 2, 8, 2, 2, 2, 10, 4, 8, 1, w_maint];
        let pick = |rng: &mut Rng, nlog: usize| -> usize {
            if nlog == 0 { 0 }
            else if rng.chance(1, 2) { nlog - 1 - rng.below(nlog.min(4) as u64) as usize }
            else { rng.below(nlog as u64) as usize }
        };
        let op = match rng.weighted(&ws) {
            0 => { nlog += 1; Op::Create { atomic: false, dropped: false } }
            1 => { nlog += 1; Op::Create { atomic: false, dropped: true } }
            2 => { nlog += 1; Op::Create { atomic: true, dropped: false } }
            3 => { nlog += 1; Op::Create { atomic: true, dropped: true } }
            4 => { let n = rng.range(0, 4) as usize; nlog += n; Op::CreateIter { atomic: false, n } }
            5 => { let n = rng.range(0, 4) as usize; nlog += n; Op::CreateIter { atomic: true, n } }
            6 => Op::DelNow(pick(rng, nlog)),
            7 => {
                let n = rng.range(0, 5) as usize;
                let mut hs: Vec<usize> = (0..n).map(|_| pick(rng, nlog)).collect();
                if n >= 2 && rng.chance(1, 3) { hs[n - 1] = hs[0]; }
                Op::DelBatch(hs)
            }
            8 => Op::DelAtomic(pick(rng, nlog)),
            9 => Op::DelAll,
            _ => Op::Maintain,
        };
        ops.push(op);
    }
    ops
}

// ------------------------------------------------------------------------------------ cases

#[derive(Clone, Debug, PartialEq)]
enum Call {
    Create,
    CreateIter(usize),
    Del(usize),
    Alive(usize),
    Join,
    Lazy(u32),
}

#[derive(Clone, Debug)]
enum InitOp {
    W(Op),
    Lazy(u32),
}

#[derive(Clone, Debug)]
struct Case {
    id: String,
    init: Vec<InitOp>,
    progs: Vec<Vec<Call>>,
    sched: Vec<usize>,
}

fn show_call(c: &Call) -> String {
    match c {
        Call::Create => "create".into(),
        Call::CreateIter(n) => format!("create_iter:{}", n),
        Call::Del(k) => format!("del:@{}", k),
        Call::Alive(k) => format!("alive:@{}", k),
        Call::Join => "join".into(),
        Call::Lazy(t) => format!("lazy:{}", t),
    }
}

fn parse_call(s: &str) -> Option<Call> {
    let (h, a) = match s.split_once(':') {
        Some((h, a)) => (h, Some(a)),
        None => (s, None),
    };
    Some(match (h, a) {
        ("create", None) => Call::Create,
        ("create_iter", Some(n)) => Call::CreateIter(n.parse().ok()?),
        ("del", Some(k)) => Call::Del(k.strip_prefix('@')?.parse().ok()?),
        ("alive", Some(k)) => Call::Alive(k.strip_prefix('@')?.parse().ok()?),
        ("join", None) => Call::Join,
        ("lazy", Some(t)) => Call::Lazy(t.parse().ok()?),
        _ => return None,
    })
}

fn show_init(op: &InitOp) -> String {
    match op {
        InitOp::W(op) => show_op(op),
        InitOp::Lazy(t) => format!("lazy {}", t),
    }
}

fn parse_init(s: &str) -> Option<InitOp> {
    let l = s.split(" => ").next().unwrap().trim();
    if let Some(t) = l.strip_prefix("lazy ") {
        return Some(InitOp::Lazy(t.trim().parse().ok()?));
    }
    parse_op(l).map(InitOp::W)
}

/// `create_iter:0` is dropped (it makes no call to the allocator at all).
fn normalise(progs: &mut Vec<Vec<Call>>) {
    for p in progs.iter_mut() {
        p.retain(|c| *c != Call::CreateIter(0));
    }
}

// ------------------------------------------------------------------------------------ controller

#[derive(Default)]
struct LazyLog(Vec<u32>);
/// Tags of the follow-up actions that ran: an action with an ODD tag is queued with `exec_mut` and, when it runs, queues a
/// follow-up with the plain `exec`; the follow-up must run (exactly once) later in the same `maintain`.
#[derive(Default)]
struct FollowLog(Vec<u32>);

fn queue_lazy(lazy: &LazyUpdate, tag: u32) {
    if tag % 2 == 1 {
        lazy.exec_mut(move |w| {
            w.write_resource::<LazyLog>().0.push(tag);
            w.read_resource::<LazyUpdate>().exec(move |w| w.write_resource::<FollowLog>().0.push(tag));
        });
    } else {
        lazy.exec(move |w| w.write_resource::<LazyLog>().0.push(tag));
    }
}

/// `ok`, or what is wrong with the follow-ups of the odd tags in the lazy log.
fn followups_verdict(world: &World) -> String {
    let mut want: Vec<u32> = world.read_resource::<LazyLog>().0.iter().cloned().filter(|t| t % 2 == 1).collect();
    let mut got: Vec<u32> = world.read_resource::<FollowLog>().0.clone();
    want.sort(); got.sort();
    if want == got { "ok".into() } else { format!("bad want={} got={}", want.len(), got.len()) }
}

struct St {
    n: usize,
    turn: Option<usize>,
    sched: Vec<usize>,
    pos: usize,
    finished: Vec<bool>,
    executed: Vec<usize>,     // effective ticks (a live thread ran), schedule part and drain part
    enabled: Vec<Vec<usize>>, // unfinished threads at each effective tick
    ticks: u64,               // all ticks including no-ops
    log: Vec<Entity>,
    events: Vec<String>,
    cas_fail: u64,
    pops: u64,
    switches: u64, // context switches away from a thread that is inside a call
    aborted: bool,
    limit: u64,
}

static CTL: (Mutex<Option<St>>, Condvar) = (Mutex::new(None), Condvar::new());

thread_local! {
    static TID: Cell<usize> = Cell::new(usize::MAX);
    static FRESH: Cell<bool> = Cell::new(false);
    static LAST_SITE: Cell<u32> = Cell::new(0);
}

struct Abort;

/// Chooses the thread that runs next. Called with the lock held by the thread that just
/// finished a step (or by the main thread at the start).
fn advance(st: &mut St) {
    loop {
        if st.ticks > st.limit {
            st.aborted = true;
            st.turn = None;
            return;
        }
        let un: Vec<usize> = (0..st.n).filter(|&t| !st.finished[t]).collect();
        if st.pos < st.sched.len() {
            let c = st.sched[st.pos];
            st.pos += 1;
            st.ticks += 1;
            if c < st.n && !st.finished[c] {
                st.turn = Some(c);
                st.executed.push(c);
                st.enabled.push(un);
                return;
            }
            // no-op tick
        } else {
            match un.first() {
                Some(&c) => {
                    st.ticks += 1;
                    st.turn = Some(c);
                    st.executed.push(c);
                    st.enabled.push(un);
                }
                None => st.turn = None,
            }
            return;
        }
    }
}

/// The calling thread has finished a step: pass the token on and wait for the next turn.
fn yield_now(tid: usize, in_call: bool) {
    let mut g = CTL.0.lock().unwrap();
    {
        let st = g.as_mut().unwrap();
        advance(st);
        if in_call && st.turn != Some(tid) {
            st.switches += 1;
        }
    }
    CTL.1.notify_all();
    loop {
        let st = g.as_mut().unwrap();
        if st.aborted {
            drop(g);
            resume_unwind(Box::new(Abort));
        }
        if st.turn == Some(tid) {
            return;
        }
        g = CTL.1.wait(g).unwrap();
    }
}

fn wait_turn(tid: usize) {
    let mut g = CTL.0.lock().unwrap();
    loop {
        let st = g.as_mut().unwrap();
        if st.aborted {
            drop(g);
            resume_unwind(Box::new(Abort));
        }
        if st.turn == Some(tid) {
            return;
        }
        g = CTL.1.wait(g).unwrap();
    }
}

/// The scheduler callback installed into specs (hook H1).
fn on_yield(site: u32) {
    let tid = TID.with(|t| t.get());
    if tid == usize::MAX {
        return; // not a controlled thread (main thread running the initial history)
    }
    let fresh = FRESH.with(|f| f.replace(false));
    if fresh {
        LAST_SITE.with(|l| l.set(0));
    }
    // The entry sites of a call coincide with the harness' own call-boundary yield.
    if fresh && (site == verif::SITE_DEC_ENTRY || site == verif::SITE_KILL_ENTRY) {
        return;
    }
    {
        let mut g = CTL.0.lock().unwrap();
        let st = g.as_mut().unwrap();
        // a CAS failed: the loop head is reached again, or the decrement loop is left with the
        // observed value 0 (next site: entry of `atomic_increment`)
        let last = LAST_SITE.with(|l| l.replace(site));
        let in_dec = last == verif::SITE_DEC_CAS || last == verif::SITE_DEC_RETRY;
        if site == verif::SITE_DEC_RETRY || site == verif::SITE_INC_RETRY || (site == verif::SITE_INC_ENTRY && in_dec) {
            st.cas_fail += 1;
        }
        if site == verif::SITE_POP_SLOT {
            st.pops += 1;
        }
    }
    yield_now(tid, true);
}

fn resolve(tid_log: &[Entity], k: usize) -> Option<Entity> {
    if tid_log.is_empty() {
        None
    } else {
        Some(tid_log[k % tid_log.len()])
    }
}

fn push_event(s: String, created: Option<Entity>) {
    let mut g = CTL.0.lock().unwrap();
    let st = g.as_mut().unwrap();
    if let Some(e) = created {
        st.log.push(e);
    }
    st.events.push(s);
}

fn snapshot_log() -> Vec<Entity> {
    CTL.0.lock().unwrap().as_ref().unwrap().log.clone()
}

// The same source is built twice: by harness/ against specs with all features, and by harness/np/ (feature `np`)
// against specs WITHOUT its default `parallel` feature. There `World` and `LazyUpdate` are not `Sync`; what threads can
// still share is `&EntitiesRes`, so the threads get that reference and lazy calls are answered with `skip`
// (the np generator does not produce them).
#[cfg(not(feature = "np"))]
type LazyRef<'a> = &'a LazyUpdate;
#[cfg(feature = "np")]
type LazyRef<'a> = &'a ();
const NP: bool = cfg!(feature = "np");

fn exec_call(tid: usize, call: &Call, ents: &specs::world::EntitiesRes, lazy: LazyRef) {
    match call {
        Call::Create => {
            let e = ents.create();
            let a = ents.is_alive(e);
            push_event(format!("ev {} create => e {} {}", tid, show_entity(e), if a { "t" } else { "f" }), Some(e));
        }
        Call::CreateIter(n) => {
            for e in ents.create_iter().take(*n) {
                let a = ents.is_alive(e);
                push_event(format!("ev {} create => e {} {}", tid, show_entity(e), if a { "t" } else { "f" }), Some(e));
            }
        }
        Call::Del(k) => match resolve(&snapshot_log(), *k) {
            None => push_event(format!("ev {} del @{} => skip", tid, k), None),
            Some(e) => {
                let r = ents.delete(e);
                push_event(format!("ev {} del @{} {} => {}", tid, k, show_entity(e), if r.is_ok() { "ok" } else { "err" }), None);
            }
        },
        Call::Alive(k) => match resolve(&snapshot_log(), *k) {
            None => push_event(format!("ev {} alive @{} => skip", tid, k), None),
            Some(e) => {
                let r = ents.is_alive(e);
                push_event(format!("ev {} alive @{} {} => {}", tid, k, show_entity(e), if r { "t" } else { "f" }), None);
            }
        },
        Call::Join => {
            let mut s = format!("ev {} join => es", tid);
            for e in (&*ents).join() {
                write!(s, " {}", show_entity(e)).unwrap();
            }
            push_event(s, None);
        }
        #[cfg(not(feature = "np"))]
        Call::Lazy(tag) => {
            let tag = *tag;
            queue_lazy(lazy, tag);
            push_event(format!("ev {} lazy {} => ok", tid, tag), None);
        }
        #[cfg(feature = "np")]
        Call::Lazy(tag) => {
            let _ = lazy;
            push_event(format!("ev {} lazy {} => skip", tid, tag), None);
        }
    }
}

fn thread_body(tid: usize, prog: &[Call], ents: &specs::world::EntitiesRes, lazy: LazyRef) {
    TID.with(|t| t.set(tid));
    let r = catch_unwind(AssertUnwindSafe(|| {
        wait_turn(tid);
        for (i, call) in prog.iter().enumerate() {
            FRESH.with(|f| f.set(true));
            let r = catch_unwind(AssertUnwindSafe(|| exec_call(tid, call, ents, lazy)));
            if let Err(p) = r {
                if p.is::<Abort>() {
                    resume_unwind(p);
                }
                push_event(format!("ev {} {} => panic", tid, show_call(call).replace(':', " ")), None);
            }
            if i + 1 < prog.len() {
                yield_now(tid, false);
            }
        }
    }));
    let _ = r;
    let mut g = CTL.0.lock().unwrap();
    let st = g.as_mut().unwrap();
    st.finished[tid] = true;
    if !st.aborted {
        advance(st);
    }
    drop(g);
    CTL.1.notify_all();
}

struct Outcome {
    executed: Vec<usize>,
    enabled: Vec<Vec<usize>>,
    aborted: bool,
}

fn flush(out: &mut String) {
    let so = std::io::stdout();
    let mut l = so.lock();
    l.write_all(out.as_bytes()).unwrap();
    l.flush().unwrap();
    out.clear();
}

/// Runs one case under the controller and appends its transcript to `out`.
/// `sched_is_prefix`: print the executed tick sequence as the schedule (exhaustive mode).
fn run_case(case: &Case, out: &mut String, sched_is_prefix: bool, hang_secs: u64) -> Outcome {
    let mut ex = Exec::new();
    ex.world.insert(LazyLog::default());
    ex.world.insert(FollowLog::default());
    let mut head = String::new();
    writeln!(head, "case {}", case.id).unwrap();
    for op in &case.init {
        let r = match op {
            InitOp::W(op) => ex.exec(op),
            InitOp::Lazy(tag) => {
                let tag = *tag;
                queue_lazy(&ex.world.read_resource::<LazyUpdate>(), tag);
                "ok".to_string()
            }
        };
        writeln!(head, "init {} => {}", show_init(op), r).unwrap();
    }
    let n = case.progs.len();
    writeln!(head, "threads {}", n).unwrap();
    for (t, p) in case.progs.iter().enumerate() {
        write!(head, "prog {}", t).unwrap();
        for c in p {
            write!(head, " {}", show_call(c)).unwrap();
        }
        head.push('\n');
    }
    if !sched_is_prefix {
        write!(head, "sched").unwrap();
        for t in &case.sched {
            write!(head, " {}", t).unwrap();
        }
        head.push('\n');
        // make the case visible before it runs: if it hangs, the reader has the schedule
        out.push_str(&head);
        head.clear();
        if out.len() > 1 << 14 {
            flush(out);
        }
    }
    let total_calls: usize = case.progs.iter().map(|p| p.len()).sum();
    *CTL.0.lock().unwrap() = Some(St {
        n,
        turn: None,
        sched: case.sched.clone(),
        pos: 0,
        finished: case.progs.iter().map(|p| p.is_empty()).collect(),
        executed: Vec::new(),
        enabled: Vec::new(),
        ticks: 0,
        log: ex.log.clone(),
        events: Vec::new(),
        cas_fail: 0,
        pops: 0,
        switches: 0,
        aborted: false,
        limit: case.sched.len() as u64 + 2000 + 400 * total_calls as u64,
    });
    verif::set_scheduler(Some(on_yield));
    let world = &ex.world;
    let mut hung = false;
    {
    let ents_f = world.entities();
    let ents: &specs::world::EntitiesRes = &*ents_f;
    #[cfg(not(feature = "np"))]
    let lazy_f = world.read_resource::<LazyUpdate>();
    #[cfg(not(feature = "np"))]
    let lazy: LazyRef = &*lazy_f;
    #[cfg(feature = "np")]
    let lazy: LazyRef = &();
    std::thread::scope(|s| {
        for t in 0..n {
            if !case.progs[t].is_empty() {
                let prog = &case.progs[t];
                s.spawn(move || thread_body(t, prog, ents, lazy));
            }
        }
        let mut g = CTL.0.lock().unwrap();
        advance(g.as_mut().unwrap());
        CTL.1.notify_all();
        // watchdog: no scheduler tick for `hang_secs` seconds (progress-based, so that a loaded
        // machine, where a single hand-over can take long, is not mistaken for a hang)
        let mut t0 = Instant::now();
        let mut last_ticks = u64::MAX;
        loop {
            let st = g.as_mut().unwrap();
            if st.finished.iter().all(|&f| f) {
                break;
            }
            if st.ticks != last_ticks {
                last_ticks = st.ticks;
                t0 = Instant::now();
            }
            if hang_secs > 0 && t0.elapsed() > Duration::from_secs(hang_secs) {
                hung = true;
                break;
            }
            let (g2, _) = CTL.1.wait_timeout(g, Duration::from_millis(200)).unwrap();
            g = g2;
        }
        if hung {
            // a thread spins without reaching a yield point (or never finishes): report and die
            let st = g.as_ref().unwrap();
            let mut o = std::mem::take(out);
            o.push_str(&head);
            for e in &st.events {
                o.push_str(e);
                o.push('\n');
            }
            write!(o, "HANG case={} executed=", case.id).unwrap();
            for t in &st.executed {
                write!(o, "{},", t).unwrap();
            }
            o.push('\n');
            flush(&mut o);
            std::process::exit(3);
        }
    });
    }
    verif::set_scheduler(None);
    let st = CTL.0.lock().unwrap().take().unwrap();
    if sched_is_prefix {
        write!(head, "sched").unwrap();
        for t in &st.executed {
            write!(head, " {}", t).unwrap();
        }
        head.push('\n');
        out.push_str(&head);
    }
    for e in &st.events {
        out.push_str(e);
        out.push('\n');
    }
    if st.aborted {
        writeln!(out, "aborted ticks={}", st.ticks).unwrap();
    }
    writeln!(out, "info ticks={} cas_fail={} pops={} switches={}", st.executed.len(), st.cas_fail, st.pops, st.switches).unwrap();
    let r = catch_unwind(AssertUnwindSafe(|| ex.world.maintain()));
    writeln!(out, "maintain => {}", if r.is_ok() { "ok" } else { "panic" }).unwrap();
    let r = ex.exec(&Op::EJoin);
    writeln!(out, "ejoin => {}", r).unwrap();
    write!(out, "lazylog => tags").unwrap();
    for t in &ex.world.read_resource::<LazyLog>().0 {
        write!(out, " {}", t).unwrap();
    }
    out.push('\n');
    writeln!(out, "followups => {}", followups_verdict(&ex.world)).unwrap();
    Outcome { executed: st.executed, enabled: st.enabled, aborted: st.aborted }
}

// ------------------------------------------------------------------------------------ built-in histories and program sets

fn hist(i: usize) -> Vec<InitOp> {
    let w = |s: &str| InitOp::W(parse_op(s).unwrap());
    match i {
        // empty world: free list empty, every index comes from `atomic_increment`
        0 => vec![],
        // free list [0], raised {1}, killed {2}: log = 0:1 1:1 2:1 1:2 (dead dead alive* alive)
        1 => vec![w("create now"), w("create now"), w("create now"), w("del_batch @0 @1"), w("create atomic"), w("del_atomic @2"), InitOp::Lazy(9000)],
        // free list [1, 0] (two pops possible), one merged reuse, nothing pending: log = 0:1 1:1 2:1 3:1
        2 => vec![w("create now"), w("create now"), w("create now"), w("create atomic"), w("del_atomic @1"), w("del_now @0"), w("maintain")],
        // free list [2] after a maintain, pending raised + killed on top of it
        _ => vec![w("create_iter atomic 3"), w("maintain"), w("del_atomic @2"), w("maintain"), w("create atomic"), w("del_atomic @0"), w("create now"), InitOp::Lazy(9000), InitOp::Lazy(9001)],
    }
}
const NHIST: usize = 4;

fn psets(threads: usize, calls: usize) -> Vec<Vec<Vec<Call>>> {
    use Call::*;
    match (threads, calls) {
        (2, 1) => vec![
            vec![vec![Create], vec![Create]],
            vec![vec![Create], vec![Del(3)]],
            vec![vec![Del(2)], vec![Del(2)]],
            vec![vec![CreateIter(2)], vec![Create]],
        ],
        (2, 2) => vec![
            vec![vec![Create, Del(4)], vec![Create, Alive(4)]],
            vec![vec![Create, Lazy(100)], vec![Create, Lazy(200)]],
            vec![vec![Del(2), Del(3)], vec![Del(3), Alive(2)]],
            vec![vec![Create, Create], vec![Del(3), Lazy(200)]],
            vec![vec![Create, Join], vec![Create, Del(5)]],
            vec![vec![Lazy(100), Lazy(101)], vec![Lazy(200), Create]],
            vec![vec![Create, Create], vec![Create, Join]],
            // the big one (~1.8e5 schedules per history): thorough tier, sharded
            vec![vec![Create, Create], vec![Create, Create]],
        ],
        (3, 1) => vec![
            vec![vec![Create], vec![Create], vec![Del(3)]],
            vec![vec![Create], vec![Del(2)], vec![Lazy(300)]],
            // ~7.6e5 schedules: thorough tier, sharded
            vec![vec![Create], vec![Create], vec![Create]],
        ],
        (3, 2) => vec![
            vec![vec![Alive(3), Del(3)], vec![Lazy(200), Del(2)], vec![Create, Alive(4)]],
            vec![vec![Lazy(100), Create], vec![Del(3), Lazy(200)], vec![Alive(2), Lazy(300)]],
            vec![vec![Del(0), Del(3)], vec![Alive(3), Create], vec![Lazy(300), Join]],
        ],
        _ => vec![],
    }
}

/// All schedules of one (history, program set): stateless depth-first search by re-execution.
/// Only unfinished threads are ever scheduled. `shard`: the first `depth` choices are fixed to
/// the prefixes whose index is `shard` modulo `nshards`.
fn exhaustive(h: usize, ps: usize, progs: &Vec<Vec<Call>>, shard: usize, nshards: usize, out: &mut String) -> u64 {
    let n = progs.len();
    let mut count = 0u64;
    let depth = if nshards > 1 { 4 } else { 0 };
    let mut roots: Vec<Vec<usize>> = vec![vec![]];
    for _ in 0..depth {
        roots = roots.into_iter().flat_map(|p| (0..n).map(move |t| { let mut q = p.clone(); q.push(t); q })).collect();
    }
    for (ri, root) in roots.into_iter().enumerate() {
        if ri % nshards != shard {
            continue;
        }
        let mut stack: Vec<Vec<usize>> = vec![root.clone()];
        let mut first = true;
        while let Some(prefix) = stack.pop() {
            let case = Case { id: format!("x{}-{}-{}", h, ps, count), init: hist(h), progs: progs.clone(), sched: prefix.clone() };
            let mut buf = String::new();
            let o = run_case(&case, &mut buf, true, 60);
            // the root prefix must be feasible (every entry names a thread that is still running)
            if first {
                first = false;
                if o.executed.len() < root.len() || o.executed[..root.len()] != root[..] {
                    break;
                }
            }
            out.push_str(&buf);
            count += 1;
            if o.aborted {
                // a call does not terminate under this schedule: reported by the driver; do not
                // enumerate the (unbounded) continuations
                return count;
            }
            for i in (prefix.len().max(root.len())..o.executed.len()).rev() {
                for &alt in &o.enabled[i] {
                    if alt > o.executed[i] {
                        let mut p = o.executed[..i].to_vec();
                        p.push(alt);
                        stack.push(p);
                    }
                }
            }
            if out.len() > 1 << 16 {
                flush(out);
            }
        }
    }
    count
}

// ------------------------------------------------------------------------------------ random cases

/// Recycling shape: a free list at least as long as the number of creations the programs make, every thread creating,
/// contended schedules. Whatever the interleaving, no creation may need a never-used index.
fn gen_recycle_case(rng: &mut Rng, id: String, maxthreads: usize, maxcalls: usize) -> Case {
    let k = rng.range(8, 16) as usize;
    let mut init: Vec<InitOp> = vec![InitOp::W(Op::CreateIter { atomic: false, n: k })];
    let keep = rng.below(3) as usize;                     // a few entities stay alive
    let mut victims: Vec<usize> = (0..k).collect();
    for _ in 0..keep { let i = rng.below(victims.len() as u64) as usize; victims.remove(i); }
    for v in &victims { init.push(InitOp::W(Op::DelNow(*v))); }
    if rng.chance(1, 2) { init.push(InitOp::W(Op::Maintain)); }
    let n = rng.range(3, maxthreads.max(3) as u64) as usize;
    let mut budget = victims.len();
    let mut progs: Vec<Vec<Call>> = vec![Vec::new(); n];
    let mut steps = 0usize;
    for round in 0..maxcalls.max(1).min(3) {
        for t in 0..n {
            if budget == 0 || (round > 0 && rng.chance(1, 3)) { continue; }
            if budget >= 2 && rng.chance(1, 6) { progs[t].push(Call::CreateIter(2)); budget -= 2; steps += 12; }
            else { progs[t].push(Call::Create); budget -= 1; steps += 6; }
        }
    }
    let style = rng.below(3);
    let len = steps + steps / 2 + 4;
    let mut sched = Vec::with_capacity(len);
    let mut cur = 0usize;
    for i in 0..len {
        sched.push(match style {
            0 => i % n,
            1 => rng.below(n as u64) as usize,
            _ => { if rng.chance(2, 3) { cur = (cur + 1 + rng.below(n as u64) as usize) % n; } cur }
        });
    }
    Case { id, init, progs, sched }
}

fn gen_case(rng: &mut Rng, id: String, maxthreads: usize, maxcalls: usize) -> Case {
    if rng.chance(1, 6) { return gen_recycle_case(rng, id, maxthreads, maxcalls); }
    // initial history
    let mut init: Vec<InitOp> = if rng.chance(1, 3) {
        hist(rng.below(NHIST as u64) as usize)
    } else {
        let len = rng.range(0, 14) as usize;
        gen_script(rng, len).into_iter().map(InitOp::W).collect()
    };
    let mut ntag = 9000;
    let mut i = 0;
    while i < init.len() {
        if rng.chance(1, 8) {
            init.insert(i, InitOp::Lazy(ntag));
            ntag += 1;
            i += 1;
        }
        i += 1;
    }
    // a rough count of handles the history produces (slots are taken modulo the real log size)
    let mut nlog = 0usize;
    for op in &init {
        match op {
            InitOp::W(Op::Create { .. }) => nlog += 1,
            InitOp::W(Op::CreateIter { n, .. }) => nlog += n,
            _ => {}
        }
    }
    // half of the random histories end with a few immediate deletions: a non-empty free list
    if rng.chance(1, 2) {
        let k = rng.range(2, 4) as usize;
        init.push(InitOp::W(Op::CreateIter { atomic: false, n: k }));
        for j in 0..k {
            if j == 0 || rng.chance(2, 3) {
                init.push(InitOp::W(Op::DelNow(nlog + j)));
            }
        }
        nlog += k;
    }
    let n = if rng.chance(1, 8) { 1 } else { rng.range(2, maxthreads.max(2) as u64) as usize };
    let mut progs = Vec::new();
    let mut steps = 0usize;
    for t in 0..n {
        let len = if rng.chance(1, 10) { 0 } else { rng.range(1, maxcalls.max(1) as u64) as usize };
        let mut p = Vec::new();
        let mut tag = 100 * (t as u32 + 1);
        let mut expect = nlog;
        for _ in 0..len {
            let c = match rng.weighted(&[40, 5, 22, 14, 4, 15]) {
                0 => { expect += 1; steps += 5; Call::Create }
                1 => { let k = rng.range(1, 3) as usize; expect += k; steps += 5 * k; Call::CreateIter(k) }
                2 => { steps += 2; Call::Del(pick_slot(rng, expect + 2 * n)) }
                3 => { steps += 1; Call::Alive(pick_slot(rng, expect + 2 * n)) }
                4 => { steps += 1; Call::Join }
                _ if NP => { steps += 1; Call::Alive(pick_slot(rng, expect + 2 * n)) }
                _ => { steps += 1; tag += 1; Call::Lazy(tag) }
            };
            p.push(c);
        }
        progs.push(p);
    }
    // schedule: uniform / bursty / round-robin, sometimes too short (drain), sometimes with no-op ids
    let style = rng.below(4);
    let len = match rng.below(4) { 0 => steps / 2, 1 => steps, _ => steps + steps / 2 + 4 };
    let mut sched = Vec::with_capacity(len);
    let mut cur = 0usize;
    for i in 0..len {
        let t = match style {
            0 => rng.below(n as u64) as usize,
            1 => { if rng.chance(1, 3) { cur = rng.below(n as u64) as usize; } cur }
            2 => i % n,
            _ => { if rng.chance(2, 3) { cur = (cur + 1 + rng.below(n as u64) as usize) % n; } cur }
        };
        sched.push(if rng.chance(1, 40) { n + rng.below(2) as usize } else { t });
    }
    Case { id, init, progs, sched }
}

fn pick_slot(rng: &mut Rng, n: usize) -> usize {
    if n == 0 { 0 } else { rng.below(n as u64) as usize }
}

// ------------------------------------------------------------------------------------ stress (no scheduler)

/// Uncontrolled run on real preemption and real `Relaxed` atomics: checks the theorem's
/// postconditions only. Prints one `stress ... => ok|fail <reason>` line.
fn stress(seed: u64, threads: usize, calls: usize, out: &mut String) {
    use std::collections::{HashMap, HashSet};
    use std::sync::Barrier;
    let mut rng = Rng::new(seed);
    let mut ex = Exec::new();
    ex.world.insert(LazyLog::default());
    ex.world.insert(FollowLog::default());
    // history: a large free list, some pending atomics
    let base = 50 + rng.below(200) as usize;
    ex.exec(&Op::CreateIter { atomic: false, n: base });
    // a quarter of the phases start with an EMPTY free list, another quarter with a nearly empty one
    let free_mode = rng.below(4);
    for k in 0..base {
        if (free_mode >= 2 && rng.chance(1, 2)) || (free_mode == 1 && k < 3) {
            ex.exec(&Op::DelNow(k));
        }
    }
    if rng.chance(1, 2) {
        ex.exec(&Op::Maintain);
    }
    ex.exec(&Op::CreateIter { atomic: true, n: rng.below(20) as usize });
    let mut pending0: HashSet<Entity> = HashSet::new();
    for _ in 0..rng.below(20) {
        let k = rng.below(ex.log.len() as u64) as usize;
        if ex.exec(&Op::DelAtomic(k)) == "ok" {
            pending0.insert(ex.log[k % ex.log.len()]);
        }
    }
    let init_log = ex.log.clone();
    let init_set: HashSet<Entity> = init_log.iter().cloned().collect();
    let alive0: HashSet<Entity> = { let ents = ex.world.entities(); let v = (&*ents).join().collect(); v };
    verif::set_scheduler(None);
    let barrier = Barrier::new(threads);
    let shared: Mutex<Vec<Entity>> = Mutex::new(init_log.clone());
    let world = &ex.world;
    let seeds: Vec<u64> = (0..threads).map(|_| rng.next()).collect();
    struct TR { created: Vec<Entity>, requested: Vec<Entity>, fails: Vec<String>, tags: Vec<u32> }
    let results: Vec<TR> = {
    let ents_f = world.entities();
    let ents_r: &specs::world::EntitiesRes = &*ents_f;
    #[cfg(not(feature = "np"))]
    let lazy_f = world.read_resource::<LazyUpdate>();
    #[cfg(not(feature = "np"))]
    let lazy_r: LazyRef = &*lazy_f;
    #[cfg(feature = "np")]
    let lazy_r: LazyRef = &();
    std::thread::scope(|s| {
        let hs: Vec<_> = (0..threads).map(|t| {
            let barrier = &barrier;
            let shared = &shared;
            let alive0 = &alive0;
            let init_set = &init_set;
            let seed = seeds[t];
            s.spawn(move || {
                let mut rng = Rng::new(seed);
                let mut r = TR { created: vec![], requested: vec![], fails: vec![], tags: vec![] };
                let ents = ents_r;
                let lazy = lazy_r;
                let mut known: Vec<Entity> = Vec::new();
                let mut tag = (t as u32) << 20;
                // Aliveness of a logged handle is fixed for the whole phase (theorem alive_stable):
                // initial handles keep their initial answer, handles created in the phase are alive.
                let should = |e: Entity| if init_set.contains(&e) { alive0.contains(&e) } else { true };
                barrier.wait();
                for i in 0..calls {
                    // phases that start with an empty free list hammer the two creation paths (fresh-index counter,
                    // pops on an empty list); the others use the general mix
                    let ws: [u32; 6] = if free_mode == 0 { [45, 40, 6, 4, 1, 4] } else { [45, 3, 25, 12, 1, 14] };
                    match rng.weighted(&ws) {
                        0 => {
                            let e = ents.create();
                            if !ents.is_alive(e) { r.fails.push(format!("handle {} not alive for its creator", show_entity(e))); }
                            r.created.push(e);
                            known.push(e);
                            if i % 8 == 0 { shared.lock().unwrap().push(e); }
                        }
                        1 => {
                            for e in ents.create_iter().take(3) {
                                if !ents.is_alive(e) { r.fails.push(format!("handle {} not alive for its creator", show_entity(e))); }
                                r.created.push(e);
                                known.push(e);
                            }
                        }
                        2 | 3 => {
                            let e = if !known.is_empty() && rng.chance(1, 2) { *rng.pick(&known) } else {
                                let g = shared.lock().unwrap(); let k = rng.below(g.len() as u64) as usize; g[k] };
                            if rng.chance(2, 3) {
                                let res = ents.delete(e).is_ok();
                                if res != should(e) { r.fails.push(format!("delete of {} returned {} expected {}", show_entity(e), res, should(e))); }
                                if res { r.requested.push(e); }
                            } else {
                                let res = ents.is_alive(e);
                                if res != should(e) { r.fails.push(format!("is_alive({}) = {} expected {}", show_entity(e), res, should(e))); }
                            }
                        }
                        4 => {
                            let mut last: i64 = -1;
                            for e in (&*ents).join() {
                                if (e.id() as i64) <= last { r.fails.push("join not strictly ascending".into()); break; }
                                last = e.id() as i64;
                            }
                        }
                        #[cfg(not(feature = "np"))]
                        _ => {
                            tag += 1;
                            let tg = tag;
                            queue_lazy(lazy, tg);
                            r.tags.push(tg);
                        }
                        #[cfg(feature = "np")]
                        _ => {
                            let _ = (lazy, &mut tag);
                        }
                    }
                }
                r
            })
        }).collect();
        hs.into_iter().map(|h| h.join().unwrap_or_else(|_| TR { created: vec![], requested: vec![], fails: vec!["a thread panicked".into()], tags: vec![] })).collect()
    })
    };
    let mut fails: Vec<String> = Vec::new();
    let mut created: Vec<Entity> = Vec::new();
    let mut requested: HashSet<Entity> = HashSet::new();
    for r in &results {
        fails.extend(r.fails.iter().cloned());
        created.extend(r.created.iter().cloned());
        requested.extend(r.requested.iter().cloned());
    }
    // (a) distinct indices, distinct from the occupied ones
    let mut seen: HashMap<u32, Entity> = HashMap::new();
    for e in alive0.iter() { seen.insert(e.id(), *e); }
    for e in &created {
        if let Some(o) = seen.insert(e.id(), *e) { fails.push(format!("index shared by {} and {}", show_entity(o), show_entity(*e))); }
    }
    // C17 (recycling): nothing dies inside the phase, so a never-used index may have been taken only if every lower
    // index is occupied, now, by an entity alive at the start of the phase or created in it
    let mut c17: Option<String> = None;
    {
        let used0 = init_log.iter().map(|e| e.id() + 1).max().unwrap_or(0);
        let occ: HashSet<u32> = alive0.iter().map(|e| e.id()).chain(created.iter().map(|e| e.id())).collect();
        let top_fresh = created.iter().map(|e| e.id()).filter(|i| *i >= used0).max();
        if let Some(top) = top_fresh {
            if let Some(free) = (0..top).find(|i| !occ.contains(i)) {
                c17 = Some(format!("c17:never-used_index_{}_taken_while_index_{}_was_free", top, free));
            }
        }
    }
    // (d/e) after maintain
    let r = catch_unwind(AssertUnwindSafe(|| ex.world.maintain()));
    if r.is_err() { fails.push("maintain panicked".into()); }
    let fin: HashSet<Entity> = { let ents = ex.world.entities(); let v = (&*ents).join().collect(); v };
    let mut expect: HashSet<Entity> = alive0.difference(&pending0).cloned().collect();
    expect.extend(created.iter().cloned());
    for e in &requested { expect.remove(e); }
    if fin != expect {
        let missing = expect.difference(&fin).count();
        let extra = fin.difference(&expect).count();
        fails.push(format!("final alive set differs from initial+created-requested: {} missing, {} extra", missing, extra));
    }
    // lazy log: every tag once, per-thread order kept
    let ll = ex.world.read_resource::<LazyLog>().0.clone();
    let total: usize = results.iter().map(|r| r.tags.len()).sum();
    if ll.len() != total { fails.push(format!("lazy log has {} entries, {} were queued", ll.len(), total)); }
    for (t, r) in results.iter().enumerate() {
        let mine: Vec<u32> = ll.iter().cloned().filter(|x| (x >> 20) as usize == t).collect();
        if mine != r.tags { fails.push(format!("lazy actions of thread {} lost, duplicated or reordered", t)); }
    }
    let fv = followups_verdict(&ex.world);
    if fv != "ok" { fails.push(format!("follow-ups queued by exec_mut actions: {}", fv)); }
    let ncreated = created.len();
    writeln!(out, "case s{}-{}-{}", seed, threads, calls).unwrap();
    let c17 = c17.map(|s| format!(" {}", s)).unwrap_or_default();
    if fails.is_empty() {
        writeln!(out, "stress seed={} threads={} calls={} created={} requested={} lazy={} => ok{}", seed, threads, calls, ncreated, requested.len(), total, c17).unwrap();
    } else {
        writeln!(out, "stress seed={} threads={} calls={} created={} requested={} lazy={} => fail {}{}", seed, threads, calls, ncreated, requested.len(), total, fails[0].replace(' ', "_"), c17).unwrap();
    }
}

// ------------------------------------------------------------------------------------ main

fn parse_cases(text: &str) -> Vec<Case> {
    let mut cases: Vec<Case> = Vec::new();
    for line in text.lines() {
        let line = line.trim();
        if line.is_empty() || line.starts_with('#') || line.starts_with("domain") {
            continue;
        }
        let ts: Vec<&str> = line.split_whitespace().collect();
        match ts[0] {
            "case" => cases.push(Case { id: ts.get(1).unwrap_or(&"anon").to_string(), init: vec![], progs: vec![], sched: vec![] }),
            _ if cases.is_empty() => cases.push(Case { id: "anon".into(), init: vec![], progs: vec![], sched: vec![] }),
            _ => {}
        }
        let c = cases.last_mut().unwrap();
        match ts[0] {
            "case" => {}
            "init" => c.init.push(parse_init(&line[5..]).unwrap_or_else(|| panic!("bad init line: {}", line))),
            "threads" => {
                let n: usize = ts[1].parse().unwrap();
                while c.progs.len() < n { c.progs.push(vec![]); }
            }
            "prog" => {
                let t: usize = ts[1].parse().unwrap();
                while c.progs.len() <= t { c.progs.push(vec![]); }
                c.progs[t] = ts[2..].iter().map(|s| parse_call(s).unwrap_or_else(|| panic!("bad call: {}", s))).collect();
            }
            "sched" => c.sched = ts[1..].iter().map(|s| s.parse().unwrap()).collect(),
            _ => {} // ev / info / maintain / ejoin / lazylog lines of an earlier transcript
        }
    }
    for c in cases.iter_mut() {
        normalise(&mut c.progs);
    }
    cases
}

fn main() {
    std::panic::set_hook(Box::new(|_| {}));
    let args: Vec<String> = std::env::args().collect();
    let mut out = String::new();
    out.push_str("domain conc\n");
    match args.get(1).map(|s| s.as_str()) {
        Some("exh") => {
            let threads: usize = args[2].parse().unwrap();
            let calls: usize = args[3].parse().unwrap();
            let hsel: Option<usize> = args.get(4).and_then(|s| s.parse().ok());
            let psel: Option<usize> = args.get(5).and_then(|s| s.parse().ok());
            let shard: usize = args.get(6).map(|s| s.parse().unwrap()).unwrap_or(0);
            let nshards: usize = args.get(7).map(|s| s.parse().unwrap()).unwrap_or(1);
            let mut sets = psets(threads, calls);
            if NP {
                // no lazy calls on the build without `parallel` (LazyUpdate cannot be shared there): an is_alive probe instead
                for set in sets.iter_mut() { for prog in set.iter_mut() { for c in prog.iter_mut() { if let Call::Lazy(_) = c { *c = Call::Alive(2); } } } }
            }
            for h in 0..NHIST {
                if hsel.map_or(false, |x| x != h) { continue; }
                for (pi, ps) in sets.iter().enumerate() {
                    if psel.map_or(false, |x| x != pi) { continue; }
                    let n = exhaustive(h, pi, ps, shard, nshards, &mut out);
                    writeln!(out, "# exhaustive hist={} pset={} shard={}/{} schedules={}", h, pi, shard, nshards, n).unwrap();
                }
            }
        }
        Some("gen") => {
            let seed: u64 = args[2].parse().unwrap();
            let cases: usize = args[3].parse().unwrap();
            let maxthreads: usize = args[4].parse().unwrap();
            let maxcalls: usize = args[5].parse().unwrap();
            let mut master = Rng::new(seed);
            for c in 0..cases {
                let sub = master.next();
                let mut rng = Rng::new(sub);
                let mut case = gen_case(&mut rng, format!("g{}-{}", c, sub), maxthreads, maxcalls);
                normalise(&mut case.progs);
                run_case(&case, &mut out, false, 60);
                if out.len() > 1 << 16 { flush(&mut out); }
            }
        }
        Some("stress") => {
            let seed: u64 = args[2].parse().unwrap();
            let threads: usize = args[3].parse().unwrap();
            let calls: usize = args[4].parse().unwrap();
            // optional 4th argument: split the calls over that many rounds, each a fresh world and a fresh shared-access
            // phase (first pushes / first pops of a phase are where several one-time races live)
            let rounds: usize = args.get(5).and_then(|s| s.parse().ok()).unwrap_or(1).max(1);
            for r in 0..rounds {
                stress(seed.wrapping_add(r as u64 * 7919), threads, (calls / rounds).max(20), &mut out);
                flush(&mut out);
            }
        }
        Some("run") => {
            let text = std::fs::read_to_string(&args[2]).unwrap();
            for case in parse_cases(&text) {
                flush(&mut out);
                run_case(&case, &mut out, false, 30);
            }
        }
        Some("sets") => {
            for h in 0..NHIST {
                let v: Vec<String> = hist(h).iter().map(show_init).collect();
                writeln!(out, "# hist {}: {}", h, v.join("; ")).unwrap();
            }
            for (t, c) in [(2, 1), (2, 2), (3, 1), (3, 2)] {
                for (i, ps) in psets(t, c).iter().enumerate() {
                    let v: Vec<String> = ps.iter().map(|p| p.iter().map(show_call).collect::<Vec<_>>().join(" ")).collect();
                    writeln!(out, "# pset {}x{} #{}: {}", t, c, i, v.join(" || ")).unwrap();
                }
            }
        }
        _ => {
            eprintln!("usage: h_conc exh|gen|stress|run|sets ...");
            std::process::exit(2);
        }
    }
    flush(&mut out);
}
