//! h_derive: program generator for C18 (derive macros).
//!
//!   h_derive gen <seed> <n> <outdir> [types=i,j,..] [keep=<k>:<v.f,v.f,..>] [case=<id>:<line>]
//!
//! Draws <n> type definitions from the grammar of shapes supported by `#[derive(ConvertSaveload)]`
//! / `#[derive(Component)]` and EMITS a cargo crate in <outdir> whose binaries `p0, p1, ..` use the
//! real macros on these definitions and print one transcript block per (definition, instantiation):
//!
//!   case <id>
//!   type <ty> tattrs <n> <tattr>*                      => storage <type_name of <T as Component>::Storage>
//!   conv <val> ids <n> (<e>=<m>)* ents <n> (<m>=<e>)*  => into <json> rt <x> rtd <x> | panic | err
//!        (rt: convert_from after a serde_json round trip of the data, rtd: convert_from of the data itself;
//!         x = eq | ne | panic | err | dejson)
//!
//! (grammar of <ty>, <val>: see lean/Driver/DeriveDom.lean). Everything is determined by <seed>;
//! the optional selectors regenerate the same definitions and values and emit only a part:
//!   types=..   only the blocks of these definitions (their dependencies are still defined)
//!   keep=k:..  definition k keeps only the listed fields (variant.field, variant 0 for structs)
//!   case=id:l  only transcript line l (the type line is line 1) of block <id>; with types=, only that block
//! The crates `specs`/`specs-derive` are taken from $SPECS_REPO (default /repo).
use std::collections::BTreeSet;
use std::fmt::Write as _;
use vh::rng::Rng;

const CHUNK: usize = 40;
const N_WORLD: usize = 8; // handles in the generated program's world (see PRELUDE)

#[derive(Clone, Debug)]
enum PTy {
    U8,
    U32,
    I64,
    Bool,
    Str,
    Opt(Box<PTy>),
    Vec(Box<PTy>),
    Tup(Vec<PTy>),
    Arr(Box<PTy>, usize),
    Paren(Box<PTy>),
}

#[derive(Clone, Debug)]
enum Ty {
    Ent,
    /// `Opaque`: Clone + Default, neither serde nor ConvertSaveload (only in skipped fields)
    Opaque,
    Plain(PTy),
    Param(usize),
    Nested(usize, Vec<Ty>),
}

#[derive(Clone, Debug)]
enum Attr {
    Skip,
    /// `#[convert_save_load_attr(serde(skip))]` (true: `serde(skip, default)`)
    SerdeSkip(bool),
    Rename(String),
    /// `#[convert_save_load_attr(serde(alias = "a<r>", rename = "<r>"))]`: one forwarded attribute with TWO arguments, the
    /// second of which decides the serialised name
    Rename2(String),
    /// `#[convert_save_load_attr(cfg_attr(all(), serde(rename = "<r>")))]`: the forwarded attribute is a conditional one
    RenameCfg(String),
    Doc(String),
}

#[derive(Clone, Debug)]
struct Field {
    name: Option<String>,
    ty: Ty,
    attrs: Vec<Attr>,
}

#[derive(Clone, Copy, Debug, PartialEq)]
enum VKind {
    Unit,
    Tuple,
    Named,
}

#[derive(Clone, Debug)]
struct Variant {
    name: String,
    attrs: Vec<Attr>,
    kind: VKind,
    fields: Vec<Field>,
}

#[derive(Clone, Copy, Debug, PartialEq)]
enum Kind {
    Named,
    Tuple,
    Enum,
}

#[derive(Clone, Debug)]
enum TAttr {
    /// path segments: (ident, Some(args) when angle-bracketed)
    Storage(Vec<(String, Option<Vec<String>>)>),
    Other(String),
}

#[derive(Clone, Debug)]
struct Def {
    name: String,
    nparams: usize,
    kind: Kind,
    /// structs: one pseudo-variant holding the fields
    variants: Vec<Variant>,
    tattrs: Vec<TAttr>,
    depth: usize,
    /// field-less struct deriving `Component` only (`ConvertSaveload` needs at least one converted field);
    /// never nested in other definitions, no conversion cases
    comp_only: bool,
}

/// One `conv` line: a top-level value split into its fields (so that `keep=` can project it).
#[derive(Clone, Debug)]
struct Case {
    variant: usize,
    fields: Vec<(String, String)>, // (rust expression, encoding)
    ids: Vec<(usize, u64)>,
    ents: Vec<(u64, usize)>,
}

#[derive(Clone, Debug)]
struct Block {
    id: String,
    def: usize,
    args: Vec<Ty>,
    cases: Vec<Case>,
}

// ------------------------------------------------------------------------------------------ types

fn gen_base(rng: &mut Rng) -> PTy {
    match rng.weighted(&[2, 4, 3, 2, 3]) {
        0 => PTy::U8,
        1 => PTy::U32,
        2 => PTy::I64,
        3 => PTy::Bool,
        _ => PTy::Str,
    }
}

fn gen_pty(rng: &mut Rng, depth: usize, allow_opt: bool) -> PTy {
    if depth == 0 {
        return gen_base(rng);
    }
    match rng.weighted(&[10, if allow_opt { 2 } else { 0 }, 2, 2, 2, 1]) {
        0 => gen_base(rng),
        1 => PTy::Opt(Box::new(gen_pty(rng, depth - 1, false))),
        2 => PTy::Vec(Box::new(gen_pty(rng, depth - 1, true))),
        3 => {
            let n = rng.range(2, 3) as usize;
            PTy::Tup((0..n).map(|_| gen_pty(rng, depth - 1, true)).collect())
        }
        4 => PTy::Arr(Box::new(gen_pty(rng, depth - 1, true)), rng.range(1, 4) as usize),
        _ => PTy::Paren(Box::new(gen_base(rng))),
    }
}

fn ty_depth(ty: &Ty, defs: &[Def]) -> usize {
    match ty {
        Ty::Nested(j, args) => defs[*j].depth + args.iter().map(|a| ty_depth(a, defs)).max().unwrap_or(0),
        _ => 0,
    }
}

/// A type argument for a nested generic definition / a top-level instantiation.
fn gen_arg(rng: &mut Rng, defs: &[Def], lo: usize, nparams_here: usize, allow_nested: bool) -> Ty {
    let simple: Vec<usize> = (lo..defs.len()).filter(|&j| defs[j].depth == 1 && defs[j].nparams == 0 && !defs[j].comp_only).collect();
    let w_nested = if allow_nested && !simple.is_empty() { 15 } else { 0 };
    match rng.weighted(&[35, 30, if nparams_here > 0 { 20 } else { 0 }, w_nested]) {
        0 => Ty::Ent,
        1 => Ty::Plain(gen_pty(rng, 1, true)),
        2 => Ty::Param(rng.below(nparams_here as u64) as usize),
        _ => Ty::Nested(*rng.pick(&simple), vec![]),
    }
}

fn gen_field_ty(rng: &mut Rng, defs: &[Def], lo: usize, nparams: usize, nested_so_far: &mut usize) -> Ty {
    let cands: Vec<usize> = (lo..defs.len()).filter(|&j| defs[j].depth <= 2 && !defs[j].comp_only).collect();
    let w_nested = if !cands.is_empty() && *nested_so_far < 3 { 22 } else { 0 };
    match rng.weighted(&[30, 30, if nparams > 0 { 18 } else { 0 }, w_nested, 6]) {
        0 => Ty::Ent,
        4 => Ty::Opaque,
        1 => Ty::Plain(gen_pty(rng, 2, true)),
        2 => Ty::Param(rng.below(nparams as u64) as usize),
        _ => {
            *nested_so_far += 1;
            let j = *rng.pick(&cands);
            let allow_nested_args = defs[j].depth == 1;
            let args = (0..defs[j].nparams).map(|_| gen_arg(rng, defs, lo, nparams, allow_nested_args)).collect();
            Ty::Nested(j, args)
        }
    }
}

fn gen_attrs(rng: &mut Rng, ty: &Ty, uniq: &mut usize, on_variant: bool) -> Vec<Attr> {
    let mut a = Vec::new();
    if matches!(ty, Ty::Opaque) {
        a.push(Attr::Skip);
        a.push(Attr::SerdeSkip(rng.chance(1, 3)));
    }
    if !on_variant && matches!(ty, Ty::Plain(_)) && rng.chance(1, 4) {
        a.push(Attr::Skip);
    }
    if rng.chance(1, 4) {
        *uniq += 1;
        // (every other rename comes as the second argument of a two-argument attribute; no extra random draw)
        if *uniq % 2 == 0 { a.push(Attr::Rename2(format!("r{}", *uniq))); }
        else if *uniq % 4 == 3 { a.push(Attr::RenameCfg(format!("r{}", *uniq))); }
        else { a.push(Attr::Rename(format!("r{}", *uniq))); }
    }
    if rng.chance(1, 10) {
        *uniq += 1;
        a.push(Attr::Doc(format!("d{}", *uniq)));
    }
    // attribute order is arbitrary in source programs
    if a.len() >= 2 && rng.chance(1, 2) {
        a.reverse();
    }
    a
}

fn gen_fields(rng: &mut Rng, defs: &[Def], lo: usize, nparams: usize, n: usize, named: bool, nested: &mut usize, uniq: &mut usize) -> Vec<Field> {
    (0..n)
        .map(|i| {
            let ty = gen_field_ty(rng, defs, lo, nparams, nested);
            let attrs = gen_attrs(rng, &ty, uniq, false);
            // (some named definitions have a field literally called `data`, followed by further fields: the generated
            //  `convert_from` receives its argument under that name)
            let name = if named && n >= 3 && n % 3 == 0 && i == 1 { "data".to_string() } else { format!("f{}", i) };
            Field { name: if named { Some(name) } else { None }, ty, attrs }
        })
        .collect()
}

const STORAGES: [&str; 5] = ["VecStorage", "DenseVecStorage", "HashMapStorage", "BTreeStorage", "FlaggedStorage"];

fn gen_storage(rng: &mut Rng) -> TAttr {
    let name = rng.pick(&STORAGES).to_string();
    let mut segs: Vec<(String, Option<Vec<String>>)> = Vec::new();
    if rng.chance(1, 3) {
        segs.push(("specs".into(), None));
        segs.push(("storage".into(), None));
    }
    let args = if rng.chance(1, 2) {
        None // `<Self>` left to the macro
    } else if name == "FlaggedStorage" && rng.chance(2, 3) {
        let inner = *rng.pick(&["VecStorage<Self>", "specs::storage::HashMapStorage<Self>", "DenseVecStorage<Self>", "BTreeStorage<Self>"]);
        Some(vec!["Self".to_string(), inner.to_string()])
    } else {
        Some(vec!["Self".to_string()])
    };
    segs.push((name, args));
    TAttr::Storage(segs)
}

fn field_is_converted(f: &Field) -> bool {
    !f.attrs.iter().any(|a| matches!(a, Attr::Skip))
}

fn gen_def(rng: &mut Rng, defs: &[Def], lo: usize, index: usize, wide: bool) -> Def {
    let kind = match rng.weighted(&[4, 3, 4]) {
        0 => Kind::Named,
        1 => Kind::Tuple,
        _ => Kind::Enum,
    };
    // (wide definitions rotate through the kinds: named struct, tuple struct, enum with a wide tuple / named variant)
    let kind = if wide { [Kind::Named, Kind::Tuple, Kind::Enum, Kind::Enum][index % 4] } else { kind };
    let mut nparams = rng.weighted(&[60, 28, 12]);
    // field-less structs (`struct T {}`, `struct T();`, `struct T;`): no parameters (an unused one does not compile)
    let fieldless = kind != Kind::Enum && rng.chance(1, 10);
    if fieldless { nparams = 0; }
    let mut nested = 0usize;
    let mut uniq = 0usize;
    let mut variants: Vec<Variant> = Vec::new();
    // wide definitions (the extra ones behind the universe, see `main`): 11–13 fields in a struct / in one variant
    // (two-digit positions: `field10` sorts before `field2`)
    let fieldless = fieldless && !wide;
    if kind != Kind::Enum {
        let n = if fieldless { 0 } else if wide { 11 + rng.below(3) as usize } else { 1 + rng.weighted(&[10, 16, 16, 14, 10, 6, 4, 4]) };
        let fields = gen_fields(rng, defs, lo, nparams, n, kind == Kind::Named, &mut nested, &mut uniq);
        variants.push(Variant { name: String::new(), attrs: vec![], kind: if kind == Kind::Named { VKind::Named } else { VKind::Tuple }, fields });
    } else {
        let nv = rng.range(1, 5) as usize;
        let mut budget = 8usize;
        for v in 0..nv {
            let vkind = match rng.weighted(&[3, 4, 4]) {
                0 => VKind::Unit,
                1 => VKind::Tuple,
                _ => VKind::Named,
            };
            let n = if vkind == VKind::Unit || budget == 0 { 0 } else { (rng.range(1, 4) as usize).min(budget) };
            let vkind = if wide && v == 0 { if index % 2 == 0 { VKind::Tuple } else { VKind::Named } } else { vkind };
            let n = if wide && v == 0 { 11 + rng.below(3) as usize } else { n };
            budget -= n.min(budget);
            let vkind = if n == 0 { VKind::Unit } else { vkind };
            let fields = gen_fields(rng, defs, lo, nparams, n, vkind == VKind::Named, &mut nested, &mut uniq);
            let attrs = gen_attrs(rng, &Ty::Ent, &mut uniq, true);
            variants.push(Variant { name: format!("V{}", v), attrs, kind: vkind, fields });
        }
    }
    // The generated data type mentions its extra parameter `MA` only through converted fields:
    // a definition needs at least one (otherwise rustc rejects `…SaveloadData<MA>`: unused parameter).
    if !fieldless && !variants.iter().any(|v| v.fields.iter().any(field_is_converted)) {
        let v = variants.iter_mut().find(|v| v.kind != VKind::Unit);
        match v {
            Some(v) => {
                let name = if v.kind == VKind::Named { Some(format!("f{}", v.fields.len())) } else { None };
                v.fields.push(Field { name, ty: Ty::Ent, attrs: vec![] });
            }
            None => variants.push(Variant { name: format!("V{}", variants.len()), attrs: vec![], kind: VKind::Tuple, fields: vec![Field { name: None, ty: Ty::Ent, attrs: vec![] }] }),
        }
    }
    // every generic parameter must occur in a field (rustc: E0392)
    for p in 0..nparams {
        let used = variants.iter().any(|v| v.fields.iter().any(|f| ty_mentions(&f.ty, p)));
        if !used {
            let vi = (0..variants.len()).find(|&i| variants[i].kind != VKind::Unit);
            match vi {
                Some(i) => {
                    let v = &mut variants[i];
                    let name = if v.kind == VKind::Named { Some(format!("f{}", v.fields.len())) } else { None };
                    v.fields.push(Field { name, ty: Ty::Param(p), attrs: vec![] });
                }
                None => variants.push(Variant { name: format!("V{}", variants.len()), attrs: vec![], kind: VKind::Tuple, fields: vec![Field { name: None, ty: Ty::Param(p), attrs: vec![] }] }),
            }
        }
    }
    let mut tattrs = Vec::new();
    if rng.chance(1, 6) {
        tattrs.push(TAttr::Other("allow(dead_code)".into()));
    }
    if rng.chance(2, 3) {
        tattrs.push(gen_storage(rng));
        if rng.chance(1, 10) {
            tattrs.push(gen_storage(rng)); // `.find(..)` takes the first one
        }
    }
    if rng.chance(1, 8) {
        tattrs.push(TAttr::Other("doc=\"t\"".into()));
    }
    let depth = 1 + variants.iter().flat_map(|v| v.fields.iter()).map(|f| ty_depth(&f.ty, defs)).max().unwrap_or(0);
    Def { name: format!("T{}", index), nparams, kind, variants, tattrs, depth, comp_only: fieldless }
}

fn ty_mentions(ty: &Ty, p: usize) -> bool {
    match ty {
        Ty::Param(n) => *n == p,
        Ty::Nested(_, args) => args.iter().any(|a| ty_mentions(a, p)),
        _ => false,
    }
}

fn subst(ty: &Ty, env: &[Ty]) -> Ty {
    match ty {
        Ty::Param(n) => env[*n].clone(),
        Ty::Nested(j, args) => Ty::Nested(*j, args.iter().map(|a| subst(a, env)).collect()),
        t => t.clone(),
    }
}

// --------------------------------------------------------------------------------------- printing

fn pty_rust(p: &PTy) -> String {
    match p {
        PTy::U8 => "u8".into(),
        PTy::U32 => "u32".into(),
        PTy::I64 => "i64".into(),
        PTy::Bool => "bool".into(),
        PTy::Str => "String".into(),
        PTy::Opt(t) => format!("Option<{}>", pty_rust(t)),
        PTy::Vec(t) => format!("Vec<{}>", pty_rust(t)),
        PTy::Tup(ts) => format!("({})", ts.iter().map(pty_rust).collect::<Vec<_>>().join(", ")),
        PTy::Arr(t, n) => format!("[{}; {}]", pty_rust(t), n),
        PTy::Paren(t) => format!("({})", pty_rust(t)),
    }
}

fn pty_enc(p: &PTy) -> String {
    match p {
        PTy::U8 => "u8".into(),
        PTy::U32 => "u32".into(),
        PTy::I64 => "i64".into(),
        PTy::Bool => "bool".into(),
        PTy::Str => "str".into(),
        PTy::Opt(t) => format!("opt {}", pty_enc(t)),
        PTy::Vec(t) => format!("vec {}", pty_enc(t)),
        PTy::Tup(ts) => format!("tup {} {}", ts.len(), ts.iter().map(pty_enc).collect::<Vec<_>>().join(" ")),
        PTy::Arr(t, n) => format!("arr {} {}", n, pty_enc(t)),
        PTy::Paren(t) => format!("paren {}", pty_enc(t)),
    }
}

fn ty_rust(ty: &Ty, defs: &[Def]) -> String {
    match ty {
        Ty::Ent => "Entity".into(),
        Ty::Opaque => "Opaque".into(),
        Ty::Plain(p) => pty_rust(p),
        Ty::Param(n) => format!("P{}", n),
        Ty::Nested(j, args) => {
            if args.is_empty() {
                defs[*j].name.clone()
            } else {
                format!("{}<{}>", defs[*j].name, args.iter().map(|a| ty_rust(a, defs)).collect::<Vec<_>>().join(", "))
            }
        }
    }
}

fn attr_enc(a: &Attr) -> String {
    match a {
        Attr::Skip => "S".into(),
        Attr::SerdeSkip(false) => "F:serde(skip)".into(),
        Attr::SerdeSkip(true) => "F:serde(skip,default)".into(),
        Attr::Rename(r) => format!("F:serde(rename=\"{}\")", r),
        Attr::Rename2(r) => format!("F:serde(alias=\"a{}\",rename=\"{}\")", r, r),
        Attr::RenameCfg(r) => format!("F:cfg_attr(all(),serde(rename=\"{}\"))", r),
        Attr::Doc(d) => format!("O:doc=\"{}\"", d),
    }
}

fn attr_rust(a: &Attr) -> String {
    match a {
        Attr::Skip => "#[convert_save_load_skip_convert]".into(),
        Attr::SerdeSkip(false) => "#[convert_save_load_attr(serde(skip))]".into(),
        Attr::SerdeSkip(true) => "#[convert_save_load_attr(serde(skip, default))]".into(),
        Attr::Rename(r) => format!("#[convert_save_load_attr(serde(rename = \"{}\"))]", r),
        Attr::Rename2(r) => format!("#[convert_save_load_attr(serde(alias = \"a{}\", rename = \"{}\"))]", r, r),
        Attr::RenameCfg(r) => format!("#[convert_save_load_attr(cfg_attr(all(), serde(rename = \"{}\")))]", r),
        Attr::Doc(d) => format!("#[doc = \"{}\"]", d),
    }
}

fn attrs_enc(attrs: &[Attr]) -> String {
    let mut s = format!("{}", attrs.len());
    for a in attrs {
        s.push(' ');
        s.push_str(&attr_enc(a));
    }
    s
}

fn field_enc(f: &Field, defs: &[Def]) -> String {
    format!("f {} {} {}", f.name.as_deref().unwrap_or("_"), attrs_enc(&f.attrs), ty_enc(&f.ty, defs))
}

fn fields_enc(fs: &[Field], defs: &[Def]) -> String {
    let mut s = format!("{}", fs.len());
    for f in fs {
        s.push(' ');
        s.push_str(&field_enc(f, defs));
    }
    s
}

fn shape_enc(d: &Def, defs: &[Def]) -> String {
    match d.kind {
        Kind::Named => format!("ns {} {} {}", d.name, d.nparams, fields_enc(&d.variants[0].fields, defs)),
        Kind::Tuple => format!("ts {} {} {}", d.name, d.nparams, fields_enc(&d.variants[0].fields, defs)),
        Kind::Enum => {
            let mut s = format!("en {} {} {}", d.name, d.nparams, d.variants.len());
            for v in &d.variants {
                match v.kind {
                    VKind::Unit => write!(s, " vu {} {}", v.name, attrs_enc(&v.attrs)).unwrap(),
                    VKind::Tuple => write!(s, " vt {} {} {}", v.name, attrs_enc(&v.attrs), fields_enc(&v.fields, defs)).unwrap(),
                    VKind::Named => write!(s, " vn {} {} {}", v.name, attrs_enc(&v.attrs), fields_enc(&v.fields, defs)).unwrap(),
                }
            }
            s
        }
    }
}

fn ty_enc(ty: &Ty, defs: &[Def]) -> String {
    match ty {
        Ty::Ent => "ent".into(),
        Ty::Opaque => "opq".into(),
        Ty::Plain(p) => pty_enc(p),
        Ty::Param(n) => format!("par {}", n),
        Ty::Nested(j, args) => {
            let mut s = format!("nest {} {}", shape_enc(&defs[*j], defs), args.len());
            for a in args {
                s.push(' ');
                s.push_str(&ty_enc(a, defs));
            }
            s
        }
    }
}

fn tattr_enc(a: &TAttr) -> String {
    match a {
        TAttr::Other(t) => format!("O:{}", t),
        TAttr::Storage(segs) => {
            let mut s = format!("storage {}", segs.len());
            for (id, args) in segs {
                match args {
                    None => write!(s, " {} -", id).unwrap(),
                    Some(a) => write!(s, " {} A {} {}", id, a.len(), a.join(" ")).unwrap(),
                }
            }
            s
        }
    }
}

fn tattr_rust(a: &TAttr) -> String {
    match a {
        TAttr::Other(t) => format!("#[{}]", t.replace("doc=", "doc = ")),
        TAttr::Storage(segs) => {
            let p: Vec<String> = segs
                .iter()
                .map(|(id, args)| match args {
                    None => id.clone(),
                    Some(a) => format!("{}<{}>", id, a.join(", ")),
                })
                .collect();
            format!("#[storage({})]", p.join("::"))
        }
    }
}

fn def_rust(d: &Def, defs: &[Def]) -> String {
    let mut s = String::new();
    s.push_str(if d.comp_only { "#[derive(Component, Clone, Debug, PartialEq)]\n" } else { "#[derive(ConvertSaveload, Component, Clone, Debug, PartialEq)]\n" });
    for a in &d.tattrs {
        s.push_str(&tattr_rust(a));
        s.push('\n');
    }
    let generics = if d.nparams == 0 { String::new() } else { format!("<{}>", (0..d.nparams).map(|p| format!("P{}", p)).collect::<Vec<_>>().join(", ")) };
    // bounds go into a where clause: the macro copies where clauses (not inline bounds) to the data type
    let wh = if d.nparams == 0 { String::new() } else { format!(" where {}", (0..d.nparams).map(|p| format!("P{}: Send + Sync + 'static", p)).collect::<Vec<_>>().join(", ")) };
    let fields_rust = |fs: &[Field], named: bool| -> String {
        fs.iter()
            .map(|f| {
                let attrs: String = f.attrs.iter().map(|a| attr_rust(a) + " ").collect();
                if named {
                    format!("{}{}: {}", attrs, f.name.as_ref().unwrap(), ty_rust(&f.ty, defs))
                } else {
                    format!("{}{}", attrs, ty_rust(&f.ty, defs))
                }
            })
            .collect::<Vec<_>>()
            .join(", ")
    };
    match d.kind {
        Kind::Named => write!(s, "struct {}{}{} {{ {} }}\n", d.name, generics, wh, fields_rust(&d.variants[0].fields, true)).unwrap(),
        // a field-less tuple struct is written as a unit struct for every other definition index
        Kind::Tuple if d.variants[0].fields.is_empty() && d.name.as_bytes().last().map(|b| b % 2 == 0).unwrap_or(false) =>
            write!(s, "struct {}{}{};\n", d.name, generics, wh).unwrap(),
        Kind::Tuple => write!(s, "struct {}{}({}){};\n", d.name, generics, fields_rust(&d.variants[0].fields, false), wh).unwrap(),
        Kind::Enum => {
            write!(s, "enum {}{}{} {{\n", d.name, generics, wh).unwrap();
            for v in &d.variants {
                let attrs: String = v.attrs.iter().map(|a| attr_rust(a) + " ").collect();
                match v.kind {
                    VKind::Unit => write!(s, "    {}{},\n", attrs, v.name).unwrap(),
                    VKind::Tuple => write!(s, "    {}{}({}),\n", attrs, v.name, fields_rust(&v.fields, false)).unwrap(),
                    VKind::Named => write!(s, "    {}{} {{ {} }},\n", attrs, v.name, fields_rust(&v.fields, true)).unwrap(),
                }
            }
            s.push_str("}\n");
        }
    }
    s
}

// ----------------------------------------------------------------------------------------- values

fn gen_pval(rng: &mut Rng, p: &PTy) -> (String, String) {
    match p {
        PTy::U8 => {
            let x = rng.below(256);
            (format!("{}u8", x), format!("i {}", x))
        }
        PTy::U32 => {
            let x = if rng.chance(1, 8) { u32::MAX as u64 } else { rng.below(1000) };
            (format!("{}u32", x), format!("i {}", x))
        }
        PTy::I64 => {
            let x: i64 = match rng.below(8) {
                0 => i64::MIN + 1,
                1 => i64::MAX,
                _ => rng.below(2001) as i64 - 1000,
            };
            (format!("({}i64)", x), format!("i {}", x))
        }
        PTy::Bool => {
            let b = rng.chance(1, 2);
            (format!("{}", b), format!("b {}", if b { 1 } else { 0 }))
        }
        PTy::Str => {
            let n = rng.range(1, 5);
            let s: String = (0..n).map(|_| (b'a' + rng.below(26) as u8) as char).collect();
            (format!("String::from(\"{}\")", s), format!("s {}", s))
        }
        PTy::Opt(t) => {
            if rng.chance(1, 3) {
                ("None".into(), "none".into())
            } else {
                let (r, e) = gen_pval(rng, t);
                (format!("Some({})", r), format!("some {}", e))
            }
        }
        PTy::Vec(t) => {
            let n = rng.below(4) as usize;
            let xs: Vec<(String, String)> = (0..n).map(|_| gen_pval(rng, t)).collect();
            (
                format!("vec![{}]", xs.iter().map(|x| x.0.clone()).collect::<Vec<_>>().join(", ")),
                format!("seq {}{}", n, xs.iter().map(|x| format!(" {}", x.1)).collect::<String>()),
            )
        }
        PTy::Tup(ts) => {
            let xs: Vec<(String, String)> = ts.iter().map(|t| gen_pval(rng, t)).collect();
            (
                format!("({})", xs.iter().map(|x| x.0.clone()).collect::<Vec<_>>().join(", ")),
                format!("seq {}{}", xs.len(), xs.iter().map(|x| format!(" {}", x.1)).collect::<String>()),
            )
        }
        PTy::Arr(t, n) => {
            let xs: Vec<(String, String)> = (0..*n).map(|_| gen_pval(rng, t)).collect();
            (
                format!("[{}]", xs.iter().map(|x| x.0.clone()).collect::<Vec<_>>().join(", ")),
                format!("seq {}{}", n, xs.iter().map(|x| format!(" {}", x.1)).collect::<String>()),
            )
        }
        PTy::Paren(t) => {
            let (r, e) = gen_pval(rng, t);
            (format!("({})", r), e)
        }
    }
}

/// Value of a closed type: (rust expression, encoding). `used` collects the world entities placed
/// in converted positions, `all` every entity placed anywhere.
fn gen_val(rng: &mut Rng, ty: &Ty, defs: &[Def], used: &mut Vec<usize>) -> (String, String) {
    match ty {
        Ty::Ent => {
            // prefer few distinct entities so that repeated ones occur
            let k = if !used.is_empty() && rng.chance(1, 4) { *rng.pick(used) } else { rng.below(N_WORLD as u64) as usize };
            used.push(k);
            (format!("es[{}]", k), format!("e ${}", k))
        }
        Ty::Plain(p) => {
            let (r, e) = gen_pval(rng, p);
            (r, format!("p {}", e))
        }
        Ty::Opaque => {
            let n = if rng.chance(1, 2) { 0 } else { rng.range(1, 9) };
            (format!("Opaque({})", n), format!("o {}", n))
        }
        Ty::Param(_) => unreachable!("value of an open type"),
        Ty::Nested(j, args) => {
            let d = &defs[*j];
            let vi = rng.below(d.variants.len() as u64) as usize;
            let (fields, _) = gen_fields_val(rng, d, vi, args, defs, used);
            assemble(d, vi, &fields)
        }
    }
}

fn gen_fields_val(rng: &mut Rng, d: &Def, vi: usize, args: &[Ty], defs: &[Def], used: &mut Vec<usize>) -> (Vec<(String, String)>, ()) {
    let v = &d.variants[vi];
    let mut out = Vec::new();
    for f in &v.fields {
        let cty = subst(&f.ty, args);
        if field_is_converted(f) {
            out.push(gen_val(rng, &cty, defs, used));
        } else {
            let mut ignore = Vec::new();
            out.push(gen_val(rng, &cty, defs, &mut ignore));
        }
    }
    (out, ())
}

/// Builds the expression / encoding of a value of definition `d` from its field values.
fn assemble(d: &Def, vi: usize, fields: &[(String, String)]) -> (String, String) {
    let v = &d.variants[vi];
    let encs: String = fields.iter().map(|f| format!(" {}", f.1)).collect();
    let named_init = |v: &Variant| -> String { v.fields.iter().zip(fields).map(|(f, x)| format!("{}: {}", f.name.as_ref().unwrap(), x.0)).collect::<Vec<_>>().join(", ") };
    let tuple_init = || -> String { fields.iter().map(|x| x.0.clone()).collect::<Vec<_>>().join(", ") };
    match d.kind {
        Kind::Named => (format!("{} {{ {} }}", d.name, named_init(v)), format!("st {}{}", fields.len(), encs)),
        Kind::Tuple => (format!("{}({})", d.name, tuple_init()), format!("st {}{}", fields.len(), encs)),
        Kind::Enum => {
            let r = match v.kind {
                VKind::Unit => format!("{}::{}", d.name, v.name),
                VKind::Tuple => format!("{}::{}({})", d.name, v.name, tuple_init()),
                VKind::Named => format!("{}::{} {{ {} }}", d.name, v.name, named_init(v)),
            };
            (r, format!("var {} {}{}", v.name, fields.len(), encs))
        }
    }
}

fn gen_maps(rng: &mut Rng, used: &[usize]) -> (Vec<(usize, u64)>, Vec<(u64, usize)>) {
    let mut uniq: Vec<usize> = used.iter().cloned().collect::<BTreeSet<_>>().into_iter().collect();
    // some entities that do not occur in the value are marked as well
    for k in 0..N_WORLD {
        if !uniq.contains(&k) && rng.chance(1, 3) {
            uniq.push(k);
        }
    }
    // distinct markers: a random injection into 0..32
    let mut pool: Vec<u64> = (0..32).collect();
    for i in (1..pool.len()).rev() {
        let j = rng.below(i as u64 + 1) as usize;
        pool.swap(i, j);
    }
    let mut ids: Vec<(usize, u64)> = uniq.iter().enumerate().map(|(i, &k)| (k, pool[i])).collect();
    let mut ents: Vec<(u64, usize)> = ids.iter().map(|&(k, m)| (m, k)).collect();
    let occurring: Vec<usize> = used.iter().cloned().collect::<BTreeSet<_>>().into_iter().collect();
    match rng.weighted(&[60, 12, 12, 10, 6]) {
        0 => {}
        1 => {
            // an entity of the value is not marked
            if !occurring.is_empty() {
                let k = *rng.pick(&occurring);
                ids.retain(|p| p.0 != k);
            }
        }
        2 => {
            // a marker of the value is not resolved on loading
            if !occurring.is_empty() {
                let k = *rng.pick(&occurring);
                ents.retain(|p| p.1 != k);
            }
        }
        3 => {
            // not injective: two entities share a marker
            if ids.len() >= 2 {
                let a = rng.below(ids.len() as u64) as usize;
                let mut b = rng.below(ids.len() as u64) as usize;
                if a == b {
                    b = (a + 1) % ids.len();
                }
                let m = ids[a].1;
                let old = ids[b].1;
                ids[b].1 = m;
                ents.retain(|p| p.0 != old);
            }
        }
        _ => {
            // `ents` is not the inverse: a marker resolves to another entity
            if !ents.is_empty() {
                let a = rng.below(ents.len() as u64) as usize;
                ents[a].1 = (ents[a].1 + 1 + rng.below(N_WORLD as u64 - 1) as usize) % N_WORLD;
            }
        }
    }
    // table order is irrelevant for a first-match lookup on distinct keys; shuffle a little
    if rng.chance(1, 2) {
        ids.reverse();
    }
    if rng.chance(1, 2) {
        ents.reverse();
    }
    (ids, ents)
}

fn gen_blocks(rng: &mut Rng, defs: &[Def], lo: usize, k: usize) -> Vec<Block> {
    let d = &defs[k];
    let ninst = if d.nparams == 0 { 1 } else { 2 };
    let mut blocks = Vec::new();
    for inst in 0..ninst {
        let args: Vec<Ty> = (0..d.nparams).map(|_| gen_arg(rng, defs, lo, 0, d.depth <= 2)).collect();
        let mut cases = Vec::new();
        let extra = rng.range(2, 4) as usize;
        let mut plan: Vec<usize> = (0..d.variants.len()).collect(); // every variant once
        for _ in 0..extra {
            plan.push(rng.below(d.variants.len() as u64) as usize);
        }
        if d.comp_only { plan.clear(); }   // only the `type` line (storage selection)
        for vi in plan {
            let mut used = Vec::new();
            let (fields, _) = gen_fields_val(rng, d, vi, &args, defs, &mut used);
            let (ids, ents) = gen_maps(rng, &used);
            cases.push(Case { variant: vi, fields, ids, ents });
        }
        let id = if ninst == 1 { format!("t{}", k) } else { format!("t{}{}", k, (b'a' + inst as u8) as char) };
        blocks.push(Block { id, def: k, args, cases });
    }
    blocks
}

// ---------------------------------------------------------------------------------------- emission

const PRELUDE: &str = r##"// GENERATED by /verif/harness/src/bin/h_derive.rs — do not edit.
#[macro_use]
extern crate serde;
use specs::prelude::*;
use specs::saveload::{ConvertSaveload, Marker, SimpleMarker};
use specs::storage::*;
use specs::{Component, ConvertSaveload};
use std::panic::{catch_unwind, AssertUnwindSafe};

pub struct Mk;
pub type M = SimpleMarker<Mk>;

/// Neither `Serialize` nor `ConvertSaveload`: usable in fields that skip conversion and serde.
#[derive(Clone, Debug, PartialEq, Default)]
pub struct Opaque(pub u32);

fn mk(id: u64) -> M {
    serde_json::from_str(&format!("[{}]", id)).unwrap()
}

/// Eight handles: 1 and 4 are dead (generation 1), 6 and 7 reuse their indices (generation 2).
pub fn world_entities() -> Vec<Entity> {
    let mut w = World::new();
    let mut es: Vec<Entity> = (0..6).map(|_| w.create_entity().build()).collect();
    w.delete_entity(es[1]).unwrap();
    w.delete_entity(es[4]).unwrap();
    w.maintain();
    es.push(w.create_entity().build());
    es.push(w.create_entity().build());
    es
}

/// `$k` -> `index:generation` of the k-th handle
fn subst(tmpl: &str, es: &[Entity]) -> String {
    let mut out = String::new();
    let cs: Vec<char> = tmpl.chars().collect();
    let mut i = 0;
    while i < cs.len() {
        if cs[i] == '$' {
            let mut j = i + 1;
            let mut k = 0usize;
            while j < cs.len() && cs[j].is_ascii_digit() {
                k = k * 10 + cs[j].to_digit(10).unwrap() as usize;
                j += 1;
            }
            out.push_str(&format!("{}:{}", es[k].id(), es[k].gen().id()));
            i = j;
        } else {
            out.push(cs[i]);
            i += 1;
        }
    }
    out
}

/// `type_name` without module paths and spaces
fn strip(s: &str) -> String {
    let mut out = String::new();
    let mut cur = String::new();
    let cs: Vec<char> = s.chars().collect();
    let mut i = 0;
    while i < cs.len() {
        let c = cs[i];
        if c.is_alphanumeric() || c == '_' {
            cur.push(c);
            i += 1;
        } else if c == ':' && i + 1 < cs.len() && cs[i + 1] == ':' {
            cur.clear();
            i += 2;
        } else if c == ' ' {
            i += 1;
        } else {
            out.push_str(&cur);
            cur.clear();
            out.push(c);
            i += 1;
        }
    }
    out.push_str(&cur);
    out
}

pub fn type_line<T: Component>(line: &str) {
    println!("{} => storage {}", line, strip(std::any::type_name::<T::Storage>()));
}

pub fn conv<T>(tmpl: &str, es: &[Entity], v: &T, ids: &[(usize, u64)], ents: &[(u64, usize)])
where
    T: ConvertSaveload<M> + PartialEq,
{
    let line = subst(tmpl, es);
    let idf = |e: Entity| ids.iter().find(|p| es[p.0] == e).map(|p| mk(p.1));
    let r = catch_unwind(AssertUnwindSafe(|| v.convert_into(idf)));
    match r {
        Err(_) => println!("{} => panic", line),
        Ok(Err(_)) => println!("{} => err", line),
        Ok(Ok(d)) => {
            let j = serde_json::to_string(&d).unwrap();
            let entf = |m: M| ents.iter().find(|p| p.0 == m.id()).map(|p| es[p.1]);
            let back = |d2: <T as ConvertSaveload<M>>::Data| -> &'static str {
                match catch_unwind(AssertUnwindSafe(|| <T as ConvertSaveload<M>>::convert_from(d2, entf))) {
                    Err(_) => "panic",
                    Ok(Err(_)) => "err",
                    Ok(Ok(v2)) => {
                        if v2 == *v {
                            "eq"
                        } else {
                            "ne"
                        }
                    }
                }
            };
            // through serde_json
            let rt = match serde_json::from_str::<<T as ConvertSaveload<M>>::Data>(&j) {
                Err(_) => "dejson",
                Ok(d2) => back(d2),
            };
            // directly
            let rtd = back(d);
            println!("{} => into {} rt {} rtd {}", line, j, rt, rtd);
        }
    }
}
"##;

fn deps_of(k: usize, defs: &[Def], out: &mut BTreeSet<usize>) {
    if !out.insert(k) {
        return;
    }
    fn walk(ty: &Ty, defs: &[Def], out: &mut BTreeSet<usize>) {
        if let Ty::Nested(j, args) = ty {
            deps_of(*j, defs, out);
            for a in args {
                walk(a, defs, out);
            }
        }
    }
    for v in &defs[k].variants {
        for f in &v.fields {
            walk(&f.ty, defs, out);
        }
    }
}

fn block_deps(b: &Block, defs: &[Def], out: &mut BTreeSet<usize>) {
    deps_of(b.def, defs, out);
    fn walk(ty: &Ty, defs: &[Def], out: &mut BTreeSet<usize>) {
        if let Ty::Nested(j, args) = ty {
            deps_of(*j, defs, out);
            for a in args {
                walk(a, defs, out);
            }
        }
    }
    for a in &b.args {
        walk(a, defs, out);
    }
}

fn emit_bin(defs: &[Def], blocks: &[&Block], only_line: &Option<(String, usize)>) -> String {
    let mut needed = BTreeSet::new();
    for b in blocks {
        block_deps(b, defs, &mut needed);
    }
    let mut s = String::new();
    s.push_str("#![allow(warnings)]\ninclude!(\"../common.rs\");\n\n");
    for &k in &needed {
        s.push_str(&def_rust(&defs[k], defs));
        s.push('\n');
    }
    for b in blocks {
        let d = &defs[b.def];
        let ty = Ty::Nested(b.def, b.args.clone());
        let tyr = ty_rust(&ty, defs);
        write!(s, "fn block_{}(es: &[Entity]) {{\n", b.id).unwrap();
        write!(s, "    println!(\"case {}\");\n", b.id).unwrap();
        let tattrs: String = d.tattrs.iter().map(|a| format!(" {}", tattr_enc(a))).collect();
        let tline = format!("type {} tattrs {}{}", ty_enc(&ty, defs), d.tattrs.len(), tattrs);
        write!(s, "    type_line::<{}>({:?});\n", tyr, tline).unwrap();
        for (ci, c) in b.cases.iter().enumerate() {
            if let Some((id, line)) = only_line {
                if *id == b.id && *line != ci + 2 {
                    continue;
                }
            }
            let (vr, ve) = assemble(d, c.variant, &c.fields);
            let ids_enc: String = c.ids.iter().map(|(k, m)| format!(" ${}={}", k, m)).collect();
            let ents_enc: String = c.ents.iter().map(|(m, k)| format!(" {}=${}", m, k)).collect();
            let tmpl = format!("conv {} ids {}{} ents {}{}", ve, c.ids.len(), ids_enc, c.ents.len(), ents_enc);
            write!(
                s,
                "    {{ let v: {} = {}; conv({:?}, es, &v, &{:?}, &{:?}); }}\n",
                tyr, vr, tmpl, c.ids, c.ents
            )
            .unwrap();
        }
        s.push_str("}\n\n");
    }
    s.push_str("fn main() {\n    std::panic::set_hook(Box::new(|_| {}));\n    let es = world_entities();\n");
    for b in blocks {
        write!(s, "    block_{}(&es);\n", b.id).unwrap();
    }
    s.push_str("}\n");
    s
}

fn project(defs: &mut [Def], blocks: &mut [Block], k: usize, keep: &BTreeSet<(usize, usize)>) {
    let d = &mut defs[k];
    for (vi, v) in d.variants.iter_mut().enumerate() {
        let mut i = 0;
        v.fields.retain(|_| {
            let r = keep.contains(&(vi, i));
            i += 1;
            r
        });
    }
    for b in blocks.iter_mut().filter(|b| b.def == k) {
        for c in b.cases.iter_mut() {
            let vi = c.variant;
            let mut i = 0;
            c.fields.retain(|_| {
                let r = keep.contains(&(vi, i));
                i += 1;
                r
            });
        }
    }
}

fn main() {
    let args: Vec<String> = std::env::args().collect();
    if args.get(1).map(|s| s.as_str()) != Some("gen") || args.len() < 5 {
        eprintln!("usage: h_derive gen <seed> <n> <outdir> [types=i,j,..] [keep=<k>:<v.f,..>] [case=<id>:<line>]");
        std::process::exit(2);
    }
    let seed: u64 = args[2].parse().unwrap();
    let n: usize = args[3].parse().unwrap();
    let outdir = std::path::PathBuf::from(&args[4]);
    let mut only_types: Option<Vec<usize>> = None;
    let mut keep: Option<(usize, BTreeSet<(usize, usize)>)> = None;
    let mut only_line: Option<(String, usize)> = None;
    for a in &args[5..] {
        if let Some(v) = a.strip_prefix("types=") {
            only_types = Some(v.split(',').filter(|x| !x.is_empty()).map(|x| x.parse().unwrap()).collect());
        } else if let Some(v) = a.strip_prefix("keep=") {
            let (k, l) = v.split_once(':').unwrap();
            let set = l
                .split(',')
                .filter(|x| !x.is_empty())
                .map(|x| {
                    let (a, b) = x.split_once('.').unwrap();
                    (a.parse().unwrap(), b.parse().unwrap())
                })
                .collect();
            keep = Some((k.parse().unwrap(), set));
        } else if let Some(v) = a.strip_prefix("case=") {
            let (id, l) = v.split_once(':').unwrap();
            only_line = Some((id.to_string(), l.parse().unwrap()));
        } else {
            eprintln!("unknown selector {}", a);
            std::process::exit(2);
        }
    }

    // ---- draw the universe: chunks of CHUNK definitions, nesting only inside a chunk
    let mut master = Rng::new(seed);
    let mut defs: Vec<Def> = Vec::new();
    let mut blocks: Vec<Block> = Vec::new();
    let mut k = 0;
    while k < n {
        let lo = k;
        let hi = (k + CHUNK).min(n);
        let sub = master.next();
        let mut rng = Rng::new(sub);
        for i in lo..hi {
            let d = gen_def(&mut rng, &defs, lo, i, false);
            defs.push(d);
        }
        for i in lo..hi {
            let mut vr = Rng::new(sub ^ (i as u64 + 1).wrapping_mul(0x9E3779B97F4A7C15));
            blocks.extend(gen_blocks(&mut vr, &defs, lo, i));
        }
        k = hi;
    }
    // ... and behind them n/5 WIDE definitions (11–13 fields in a struct or in one variant), each from a generator of its
    // own, so that the definitions above are what they were before these existed (recipes name definitions by index)
    for j in 0..n / 5 {
        let i = defs.len();
        let sub = seed ^ 0x51DE_u64.wrapping_mul(j as u64 + 1).wrapping_mul(0x9E3779B97F4A7C15);
        let mut rng = Rng::new(sub);
        let d = gen_def(&mut rng, &defs, i, i, true);
        defs.push(d);
        let mut vr = Rng::new(sub ^ 0x77);
        blocks.extend(gen_blocks(&mut vr, &defs, i, i));
    }
    if let Some((kk, set)) = &keep {
        project(&mut defs, &mut blocks, *kk, set);
    }

    // ---- the crate
    let repo = std::env::var("SPECS_REPO").unwrap_or_else(|_| "/repo".to_string());
    std::fs::create_dir_all(outdir.join("src/bin")).unwrap();
    for e in std::fs::read_dir(outdir.join("src/bin")).unwrap() {
        std::fs::remove_file(e.unwrap().path()).unwrap();
    }
    let cargo = format!(
        "[package]\nname = \"c18-gen\"\nversion = \"0.1.0\"\nedition = \"2021\"\npublish = false\n\n[workspace]\n\n[dependencies]\nspecs = {{ path = \"{}\", default-features = false, features = [\"serde\", \"specs-derive\"] }}\nserde = {{ version = \"1.0.104\", features = [\"serde_derive\"] }}\nserde_json = \"1.0.48\"\n\n[profile.dev]\nopt-level = 0\ndebug = 0\nincremental = false\n",
        repo
    );
    std::fs::write(outdir.join("Cargo.toml"), cargo).unwrap();
    // pinned dependency versions: the repo's lock file (a scratch worktree has none: use /repo's)
    if std::fs::copy(std::path::Path::new(&repo).join("Cargo.lock"), outdir.join("Cargo.lock")).is_err() {
        let _ = std::fs::copy("/repo/Cargo.lock", outdir.join("Cargo.lock"));
    }
    std::fs::write(outdir.join("src/common.rs"), PRELUDE).unwrap();
    let mut bins = Vec::new();
    match &only_types {
        Some(ts) => {
            // `case=id:line` narrows the selection to that block
            let sel: Vec<&Block> = blocks.iter().filter(|b| ts.contains(&b.def) && only_line.as_ref().map_or(true, |(id, _)| *id == b.id)).collect();
            std::fs::write(outdir.join("src/bin/p0.rs"), emit_bin(&defs, &sel, &only_line)).unwrap();
            bins.push("p0".to_string());
        }
        None => {
            let mut c = 0;
            let mut lo = 0;
            let n = defs.len();   // (the wide definitions behind the universe included)
            while lo < n {
                let hi = (lo + CHUNK).min(n);
                let sel: Vec<&Block> = blocks.iter().filter(|b| b.def >= lo && b.def < hi).collect();
                std::fs::write(outdir.join(format!("src/bin/p{}.rs", c)), emit_bin(&defs, &sel, &only_line)).unwrap();
                bins.push(format!("p{}", c));
                c += 1;
                lo = hi;
            }
        }
    }
    // manifest for the caller: binaries, and per definition its fields (for shrinking)
    let mut man = String::new();
    writeln!(man, "bins {}", bins.join(" ")).unwrap();
    for (i, d) in defs.iter().enumerate() {
        let fl: Vec<String> = d.variants.iter().enumerate().flat_map(|(vi, v)| (0..v.fields.len()).map(move |fi| format!("{}.{}", vi, fi))).collect();
        let bl: Vec<String> = blocks.iter().filter(|b| b.def == i).map(|b| b.id.clone()).collect();
        let mut dp = BTreeSet::new();
        deps_of(i, &defs, &mut dp);
        for b in blocks.iter().filter(|b| b.def == i) {
            block_deps(b, &defs, &mut dp); // type arguments of the instantiations
        }
        dp.remove(&i);
        let dl: Vec<String> = dp.iter().map(|x| x.to_string()).collect();
        writeln!(man, "def {} {} blocks={} fields={} deps={}", i, d.name, bl.join(","), fl.join(","), dl.join(",")).unwrap();
    }
    std::fs::write(outdir.join("MANIFEST.txt"), man).unwrap();
    println!("generated {} definitions, {} blocks, {} binaries in {}", defs.len(), blocks.len(), bins.len(), outdir.display());
}
