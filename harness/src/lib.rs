//! Shared pieces of the verification harness: PRNG, script format, world-domain executor.
pub mod rng;
pub mod world_dom;
