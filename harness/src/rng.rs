/// splitmix64: every random choice of a run derives from one state, so a case replays exactly.
#[derive(Clone)]
pub struct Rng(pub u64);
impl Rng {
    pub fn new(seed: u64) -> Self {
        Rng(seed.wrapping_mul(0x9E3779B97F4A7C15) ^ 0xD1B54A32D192ED03)
    }
    pub fn next(&mut self) -> u64 {
        self.0 = self.0.wrapping_add(0x9E3779B97F4A7C15);
        let mut z = self.0;
        z = (z ^ (z >> 30)).wrapping_mul(0xBF58476D1CE4E5B9);
        z = (z ^ (z >> 27)).wrapping_mul(0x94D049BB133111EB);
        z ^ (z >> 31)
    }
    pub fn below(&mut self, n: u64) -> u64 {
        if n == 0 { 0 } else { self.next() % n }
    }
    pub fn range(&mut self, lo: u64, hi: u64) -> u64 {
        lo + self.below(hi - lo + 1)
    }
    pub fn chance(&mut self, num: u64, den: u64) -> bool {
        self.below(den) < num
    }
    pub fn pick<'a, T>(&mut self, xs: &'a [T]) -> &'a T {
        &xs[self.below(xs.len() as u64) as usize]
    }
    /// weighted choice: returns index
    pub fn weighted(&mut self, ws: &[u32]) -> usize {
        let total: u64 = ws.iter().map(|&w| w as u64).sum();
        let mut x = self.below(total);
        for (i, &w) in ws.iter().enumerate() {
            if x < w as u64 { return i; }
            x -= w as u64;
        }
        ws.len() - 1
    }
}
