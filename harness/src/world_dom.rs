//! World domain: scripts of entity ops executed on the real `specs::World`.
//! Script line grammar is DESIGN Appendix B; a line is `op` or `op => res` (res ignored on input).
use crate::rng::Rng;
use specs::prelude::*;
use specs::world::EntitiesRes;
use std::fmt::Write as _;
use std::panic::{catch_unwind, AssertUnwindSafe};

#[derive(Clone, Debug, PartialEq)]
pub enum Op {
    Create { atomic: bool, dropped: bool },
    CreateIter { atomic: bool, n: usize },
    DelNow(usize),
    DelBatch(Vec<usize>),
    DelAtomic(usize),
    DelAll,
    Maintain,
    Alive(usize),
    WAlive(usize),
    EJoin,
}

pub fn show_op(op: &Op) -> String {
    match op {
        Op::Create { atomic, dropped } => format!(
            "create {}{}",
            if *atomic { "atomic" } else { "now" },
            if *dropped { "_dropped" } else { "" }
        ),
        Op::CreateIter { atomic, n } => {
            format!("create_iter {} {}", if *atomic { "atomic" } else { "now" }, n)
        }
        Op::DelNow(h) => format!("del_now @{}", h),
        Op::DelBatch(hs) => {
            let mut s = String::from("del_batch");
            for h in hs {
                write!(s, " @{}", h).unwrap();
            }
            s
        }
        Op::DelAtomic(h) => format!("del_atomic @{}", h),
        Op::DelAll => "del_all".into(),
        Op::Maintain => "maintain".into(),
        Op::Alive(h) => format!("alive @{}", h),
        Op::WAlive(h) => format!("walive @{}", h),
        Op::EJoin => "ejoin".into(),
    }
}

fn slot(s: &str) -> Option<usize> {
    s.strip_prefix('@')?.parse().ok()
}

pub fn parse_op(line: &str) -> Option<Op> {
    let l = line.split(" => ").next().unwrap().trim();
    let ts: Vec<&str> = l.split_whitespace().collect();
    Some(match ts.as_slice() {
        ["create", "now"] => Op::Create { atomic: false, dropped: false },
        ["create", "now_dropped"] => Op::Create { atomic: false, dropped: true },
        ["create", "atomic"] => Op::Create { atomic: true, dropped: false },
        ["create", "atomic_dropped"] => Op::Create { atomic: true, dropped: true },
        ["create_iter", "now", n] => Op::CreateIter { atomic: false, n: n.parse().ok()? },
        ["create_iter", "atomic", n] => Op::CreateIter { atomic: true, n: n.parse().ok()? },
        ["del_now", h] => Op::DelNow(slot(h)?),
        ["del_batch", hs @ ..] => Op::DelBatch(hs.iter().map(|h| slot(h)).collect::<Option<_>>()?),
        ["del_atomic", h] => Op::DelAtomic(slot(h)?),
        ["del_all"] => Op::DelAll,
        ["maintain"] => Op::Maintain,
        ["alive", h] => Op::Alive(slot(h)?),
        ["walive", h] => Op::WAlive(slot(h)?),
        ["ejoin"] => Op::EJoin,
        _ => return None,
    })
}

pub fn show_entity(e: Entity) -> String {
    format!("{}:{}", e.id(), e.gen().id())
}

pub struct Exec {
    pub world: World,
    pub log: Vec<Entity>,
}

impl Exec {
    pub fn new() -> Self {
        Exec { world: World::new(), log: Vec::new() }
    }

    fn resolve(&self, k: usize) -> Option<Entity> {
        if self.log.is_empty() { None } else { Some(self.log[k % self.log.len()]) }
    }

    /// Executes one op on the real world; returns the result tokens.
    pub fn exec(&mut self, op: &Op) -> String {
        let r = catch_unwind(AssertUnwindSafe(|| self.exec_inner(op)));
        match r {
            Ok(s) => s,
            Err(_) => "panic".into(),
        }
    }

    fn exec_inner(&mut self, op: &Op) -> String {
        match op {
            Op::Create { atomic: false, dropped } => {
                let e = if *dropped {
                    let b = self.world.create_entity();
                    let e = b.entity;
                    drop(b);
                    e
                } else {
                    self.world.create_entity().build()
                };
                self.log.push(e);
                format!("e {}", show_entity(e))
            }
            Op::Create { atomic: true, dropped } => {
                let e = {
                    let ents = self.world.entities();
                    if *dropped {
                        let b = ents.build_entity();
                        let e = b.entity;
                        drop(b);
                        e
                    } else {
                        ents.create()
                    }
                };
                self.log.push(e);
                format!("e {}", show_entity(e))
            }
            Op::CreateIter { atomic, n } => {
                let es: Vec<Entity> = if *atomic {
                    let ents = self.world.entities();
                    let v = ents.create_iter().take(*n).collect();
                    v
                } else {
                    self.world.create_iter().take(*n).collect()
                };
                let mut s = String::from("es");
                for e in &es {
                    write!(s, " {}", show_entity(*e)).unwrap();
                }
                self.log.extend(es);
                s
            }
            Op::DelNow(h) => match self.resolve(*h) {
                None => "skip".into(),
                Some(e) => match self.world.delete_entity(e) {
                    Ok(()) => "ok".into(),
                    Err(_) => "err".into(),
                },
            },
            Op::DelBatch(hs) => {
                if self.log.is_empty() {
                    return "skip".into();
                }
                let es: Vec<Entity> = hs.iter().map(|h| self.resolve(*h).unwrap()).collect();
                match self.world.delete_entities(&es) {
                    Ok(()) => "ok".into(),
                    Err((_, pos)) => format!("err {}", pos),
                }
            }
            Op::DelAtomic(h) => match self.resolve(*h) {
                None => "skip".into(),
                Some(e) => match self.world.entities().delete(e) {
                    Ok(()) => "ok".into(),
                    Err(_) => "err".into(),
                },
            },
            Op::DelAll => {
                self.world.delete_all();
                "ok".into()
            }
            Op::Maintain => {
                self.world.maintain();
                "ok".into()
            }
            Op::Alive(h) => match self.resolve(*h) {
                None => "skip".into(),
                Some(e) => {
                    let ents: specs::Read<EntitiesRes> = self.world.entities();
                    if ents.is_alive(e) { "t".into() } else { "f".into() }
                }
            },
            Op::WAlive(h) => match self.resolve(*h) {
                None => "skip".into(),
                Some(e) => if self.world.is_alive(e) { "t".into() } else { "f".into() },
            },
            Op::EJoin => {
                let ents = self.world.entities();
                let mut s = String::from("es");
                for e in (&*ents).join() {
                    write!(s, " {}", show_entity(e)).unwrap();
                }
                s
            }
        }
    }
}

pub fn is_mutating(op: &Op) -> bool {
    !matches!(op, Op::Alive(_) | Op::WAlive(_) | Op::EJoin)
}

/// Runs a script; with `probe`, after every mutating op queries every logged handle (all if the
/// log is small, else `probe_n` of them chosen by `rng`) and the entities join.
pub fn run_script(ops: &[Op], probe: bool, rng: &mut Rng, out: &mut String) {
    let mut ex = Exec::new();
    for op in ops {
        let r = ex.exec(op);
        writeln!(out, "{} => {}", show_op(op), r).unwrap();
        if probe && is_mutating(op) {
            let n = ex.log.len();
            let ks: Vec<usize> = if n <= 12 {
                (0..n).collect()
            } else {
                let mut v: Vec<usize> = (0..6).map(|_| rng.below(n as u64) as usize).collect();
                v.extend((n - 4)..n);
                v
            };
            for k in ks {
                let q = Op::Alive(k);
                let r = ex.exec(&q);
                writeln!(out, "{} => {}", show_op(&q), r).unwrap();
            }
            let q = Op::EJoin;
            let r = ex.exec(&q);
            writeln!(out, "{} => {}", show_op(&q), r).unwrap();
        }
    }
}

/// Random entity-op history; weights tilted toward create → delete → reuse cycles.
pub fn gen_script(rng: &mut Rng, len: usize) -> Vec<Op> {
    let mut ops = Vec::with_capacity(len);
    let mut nlog: usize = 0; // number of handles the script will have produced so far
    // per-script personality
    let w_maint = *rng.pick(&[2u32, 6, 12]);
    let w_batch = *rng.pick(&[2u32, 6]);
    for _ in 0..len {
        let ws = [
            10, // create now
            2,  // create now dropped
            8,  // create atomic
            2,  // create atomic dropped
            2,  // create_iter now
            2,  // create_iter atomic
            10, // del_now
            w_batch, // del_batch
            8,  // del_atomic
            1,  // del_all
            w_maint, // maintain
            2,  // walive
        ];
        let pick_slot = |rng: &mut Rng, nlog: usize| -> usize {
            if nlog == 0 { 0 }
            else if rng.chance(1, 2) { nlog - 1 - rng.below(nlog.min(4) as u64) as usize }
            else { rng.below(nlog as u64) as usize }
        };
        let op = match rng.weighted(&ws) {
            0 => { nlog += 1; Op::Create { atomic: false, dropped: false } }
            1 => { nlog += 1; Op::Create { atomic: false, dropped: true } }
            2 => { nlog += 1; Op::Create { atomic: true, dropped: false } }
            3 => { nlog += 1; Op::Create { atomic: true, dropped: true } }
            4 => { let n = rng.range(0, 4) as usize; nlog += n; Op::CreateIter { atomic: false, n } }
            5 => { let n = rng.range(0, 4) as usize; nlog += n; Op::CreateIter { atomic: true, n } }
            6 => Op::DelNow(pick_slot(rng, nlog)),
            7 => {
                let n = rng.range(0, 5) as usize;
                let mut hs: Vec<usize> = (0..n).map(|_| pick_slot(rng, nlog)).collect();
                if n >= 2 && rng.chance(1, 3) { hs[n - 1] = hs[0]; } // repeated handle
                Op::DelBatch(hs)
            }
            8 => Op::DelAtomic(pick_slot(rng, nlog)),
            9 => Op::DelAll,
            10 => Op::Maintain,
            _ => Op::WAlive(pick_slot(rng, nlog)),
        };
        ops.push(op);
    }
    ops
}

/// The alphabet of the bounded-exhaustive generator (slots are taken modulo the log size).
pub fn exhaustive_alphabet() -> Vec<Op> {
    vec![
        Op::Create { atomic: false, dropped: false },
        Op::Create { atomic: false, dropped: true },
        Op::Create { atomic: true, dropped: false },
        Op::Create { atomic: true, dropped: true },
        Op::DelNow(0),
        Op::DelNow(1),
        Op::DelAtomic(0),
        Op::DelAtomic(1),
        Op::DelBatch(vec![0, 0]),
        Op::DelBatch(vec![1, 0]),
        Op::DelBatch(vec![0, 1, 2]),
        Op::DelAll,
        Op::Maintain,
        Op::CreateIter { atomic: true, n: 2 },
    ]
}
