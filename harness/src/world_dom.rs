//! World domain: scripts of entity / storage / lazy ops executed on the real `specs::World`.
//! Script line grammar: DESIGN Appendix B (a line is `op` or `op => res`; res is ignored on input).
use crate::rng::Rng;
use specs::prelude::*;
use specs::storage::{
    AccessMut, BTreeStorage, ComponentEvent, DefaultVecStorage, DenseVecStorage, DerefFlaggedStorage,
    FlaggedStorage, HashMapStorage, NullStorage, StorageEntry, VecStorage,
};
use specs::world::EntitiesRes;
use std::cell::{Cell, RefCell};
use std::fmt::Write as _;
use std::panic::{catch_unwind, AssertUnwindSafe};
use std::sync::{Arc, Mutex};

// ------------------------------------------------------------------------------------------
// Components: twelve kinds, every one logs its value when destroyed while logging is on.

thread_local! {
    static DESTROYED: RefCell<Option<Vec<i64>>> = RefCell::new(None);
    static PANIC_AT: RefCell<Option<u64>> = RefCell::new(None); // C19: n-th destructor call panics
}

pub fn log_on() {
    DESTROYED.with(|d| *d.borrow_mut() = Some(Vec::new()));
}
pub fn log_off() -> Vec<i64> {
    DESTROYED.with(|d| d.borrow_mut().take().unwrap_or_default())
}
pub fn log_pause<R>(f: impl FnOnce() -> R) -> R {
    let saved = DESTROYED.with(|d| d.borrow_mut().take());
    let saved_p = PANIC_AT.with(|p| p.borrow_mut().take());
    let r = f();
    DESTROYED.with(|d| *d.borrow_mut() = saved);
    PANIC_AT.with(|p| *p.borrow_mut() = saved_p);
    r
}
pub fn set_panic_at(n: Option<u64>) {
    PANIC_AT.with(|p| *p.borrow_mut() = n);
}
fn note_drop(v: i64) {
    let logging = DESTROYED.with(|d| {
        let mut d = d.borrow_mut();
        if let Some(vs) = d.as_mut() {
            vs.push(v);
            true
        } else {
            false
        }
    });
    if logging && v != 0 {
        let fire = PANIC_AT.with(|p| {
            let mut p = p.borrow_mut();
            match p.as_mut() {
                Some(n) if *n == 0 => {
                    *p = None;
                    true
                }
                Some(n) => {
                    *n -= 1;
                    false
                }
                None => false,
            }
        });
        if fire && !std::thread::panicking() {
            panic!("verif: injected destructor panic");
        }
    }
}

pub trait Comp: Component + Send + Sync + Default + 'static {
    const KIND: usize;
    const TRACKED: u8; // 0 none, 1 flagged, 2 deref-flagged
    fn new(v: i64) -> Self;
    fn val(&self) -> i64;
    fn set(&mut self, v: i64);
    fn slice_view(_s: &ReadStorage<Self>) -> String {
        "slice none".into()
    }
    fn events(_s: &ReadStorage<Self>, _r: &mut Option<Box<dyn std::any::Any + Send>>) -> String {
        "ev".into()
    }
    fn register_reader(_s: &mut WriteStorage<Self>) -> Option<Box<dyn std::any::Any + Send>> {
        None
    }
    fn set_emit(_s: &mut WriteStorage<Self>, _b: bool) {}
    /// The non-lending mutable restricted join `(&entities, &mut storage.restrict_mut()).join()`; `None` for storages
    /// that do not offer it (the deref-flagged wrapper has no shared mutable access).
    fn shared_rjoin(_world: &World, _acts: &[RAct]) -> Option<String> {
        None
    }
}

macro_rules! shared_rjoin_fn {
    () => {
        fn shared_rjoin(world: &World, acts: &[RAct]) -> Option<String> {
            let mut out = String::from("items");
            let mut acts_it = acts.iter();
            let ents = world.entities();
            let mut st = world.write_storage::<Self>();
            let mut restricted = st.restrict_mut();
            // indices are taken from the joined entities, not from the mask
            for (e, mut item) in (&ents, &mut restricted).join() {
                let id = e.id();
                let act = acts_it.next().cloned().unwrap_or(RAct::Skip);
                match act {
                    RAct::Get => write!(out, " {}:v={}", id, item.get().val()).unwrap(),
                    RAct::GetMut { derefs, write } => { let old = item.get().val(); apply_access::<Self, _>(item.get_mut(), derefs, write); write!(out, " {}:v={}", id, old).unwrap(); }
                    _ => write!(out, " {}:-", id).unwrap(),
                }
            }
            Some(out)
        }
    };
}

macro_rules! comp {
    ($name:ident, $kind:expr, $storage:ty, $tracked:expr, $($extra:tt)*) => {
        #[derive(Default, Debug)]
        pub struct $name(pub i64);
        impl Drop for $name {
            fn drop(&mut self) {
                note_drop(self.0);
            }
        }
        impl Component for $name {
            type Storage = $storage;
        }
        impl Comp for $name {
            const KIND: usize = $kind;
            const TRACKED: u8 = $tracked;
            fn new(v: i64) -> Self { $name(v) }
            fn val(&self) -> i64 { self.0 }
            fn set(&mut self, v: i64) { self.0 = v; }
            $($extra)*
        }
    };
}

/// The same without a destructor (plain-old-data component types, `needs_drop::<T>() == false`).
macro_rules! comp_pod {
    ($name:ident, $kind:expr, $storage:ty, $tracked:expr, $($extra:tt)*) => {
        #[derive(Default, Debug, Clone, Copy)]
        pub struct $name(pub i64);
        impl Component for $name {
            type Storage = $storage;
        }
        impl Comp for $name {
            const KIND: usize = $kind;
            const TRACKED: u8 = $tracked;
            fn new(v: i64) -> Self { $name(v) }
            fn val(&self) -> i64 { self.0 }
            fn set(&mut self, v: i64) { self.0 = v; }
            $($extra)*
        }
    };
}

fn mask_ids<T: Comp>(s: &ReadStorage<T>) -> Vec<u32> {
    use specs::hibitset::BitSetLike;
    s.mask().iter().collect()
}

macro_rules! tracked_fns {
    () => {
        fn events(s: &ReadStorage<Self>, r: &mut Option<Box<dyn std::any::Any + Send>>) -> String {
            let mut out = String::from("ev");
            if let Some(b) = r.as_mut() {
                let rid = b.downcast_mut::<ReaderId<ComponentEvent>>().unwrap();
                for ev in s.channel().read(rid) {
                    match ev {
                        ComponentEvent::Inserted(i) => write!(out, " I{}", i).unwrap(),
                        ComponentEvent::Modified(i) => write!(out, " M{}", i).unwrap(),
                        ComponentEvent::Removed(i) => write!(out, " R{}", i).unwrap(),
                    }
                }
            }
            out
        }
        fn register_reader(s: &mut WriteStorage<Self>) -> Option<Box<dyn std::any::Any + Send>> {
            // the two public ways of getting a reader: the shorthand on the storage, and the event channel itself
            if Self::KIND % 2 == 1 { Some(Box::new(s.channel_mut().register_reader())) } else { Some(Box::new(s.register_reader())) }
        }
        #[cfg(not(feature = "np"))]
        fn set_emit(s: &mut WriteStorage<Self>, b: bool) {
            s.set_event_emission(b);
        }
        // (the `np` build of the harness is against specs without `storage-event-control`: no such call, and the
        //  generators produce no `emit` op — see `NO_EVENT_CONTROL`)
        #[cfg(feature = "np")]
        fn set_emit(_s: &mut WriteStorage<Self>, _b: bool) {
            panic!("emit op in a build without storage-event-control");
        }
    };
}

comp!(CVec, 0, VecStorage<Self>, 0,
    fn slice_view(s: &ReadStorage<Self>) -> String {
        let sl = s.as_slice();
        let mut out = format!("slice opt {}", sl.len());
        for i in mask_ids(s) {
            // SAFETY of the read is exactly what C04 claims: occupied slots are initialised.
            match sl.get(i as usize) {
                Some(c) => write!(out, " {}:{}", i, unsafe { c.assume_init_ref() }.0).unwrap(),
                None => write!(out, " {}:-", i).unwrap(),
            }
        }
        out
    }
    shared_rjoin_fn!();
);
comp!(CDense, 1, DenseVecStorage<Self>, 0,
    fn slice_view(s: &ReadStorage<Self>) -> String {
        let mut v: Vec<i64> = s.as_slice().iter().map(|c| c.0).collect();
        v.sort();
        let mut out = String::from("slice dense");
        for x in v { write!(out, " {}", x).unwrap(); }
        out
    }
    shared_rjoin_fn!();
);
comp!(CDvec, 2, DefaultVecStorage<Self>, 0,
    fn slice_view(s: &ReadStorage<Self>) -> String {
        let sl = s.as_slice();
        let ids = mask_ids(s);
        let mut nd = 0usize;
        let mut it = ids.iter().peekable();
        for (i, c) in sl.iter().enumerate() {
            if it.peek().map(|&&x| x as usize == i).unwrap_or(false) { it.next(); } else if c.0 != 0 { nd += 1; }
        }
        let mut out = format!("slice dflt {} {}", sl.len(), nd);
        for i in ids {
            match sl.get(i as usize) {
                Some(c) => write!(out, " {}:{}", i, c.0).unwrap(),
                None => write!(out, " {}:-", i).unwrap(),
            }
        }
        out
    }
    shared_rjoin_fn!();
);
comp_pod!(CDenseP, 1, DenseVecStorage<Self>, 0,
    fn slice_view(s: &ReadStorage<Self>) -> String {
        let mut v: Vec<i64> = s.as_slice().iter().map(|c| c.0).collect();
        v.sort();
        let mut out = String::from("slice dense");
        for x in v { write!(out, " {}", x).unwrap(); }
        out
    }
    shared_rjoin_fn!();
);
comp_pod!(CDvecP, 2, DefaultVecStorage<Self>, 0,
    fn slice_view(s: &ReadStorage<Self>) -> String {
        let sl = s.as_slice();
        let ids = mask_ids(s);
        let mut nd = 0usize;
        let mut it = ids.iter().peekable();
        for (i, c) in sl.iter().enumerate() {
            if it.peek().map(|&&x| x as usize == i).unwrap_or(false) { it.next(); } else if c.0 != 0 { nd += 1; }
        }
        let mut out = format!("slice dflt {} {}", sl.len(), nd);
        for i in ids {
            match sl.get(i as usize) {
                Some(c) => write!(out, " {}:{}", i, c.0).unwrap(),
                None => write!(out, " {}:-", i).unwrap(),
            }
        }
        out
    }
    shared_rjoin_fn!();
);
// `VH_POD=1` also swaps two TRACKED kinds for plain-data component types (no drop glue): 8 and 9
comp_pod!(CFHashP, 8, FlaggedStorage<Self, HashMapStorage<Self>>, 1, tracked_fns!(); shared_rjoin_fn!(););
comp_pod!(CDFVecP, 9, DerefFlaggedStorage<Self, VecStorage<Self>>, 2, tracked_fns!(););
comp!(CHash, 3, HashMapStorage<Self>, 0, shared_rjoin_fn!(););
comp!(CBTree, 4, BTreeStorage<Self>, 0, shared_rjoin_fn!(););
comp!(CFVec, 6, FlaggedStorage<Self, VecStorage<Self>>, 1, tracked_fns!(); shared_rjoin_fn!(););
comp!(CFDense, 7, FlaggedStorage<Self, DenseVecStorage<Self>>, 1, tracked_fns!(); shared_rjoin_fn!(););
comp!(CFHash, 8, FlaggedStorage<Self, HashMapStorage<Self>>, 1, tracked_fns!(); shared_rjoin_fn!(););
comp!(CDFVec, 9, DerefFlaggedStorage<Self, VecStorage<Self>>, 2, tracked_fns!(););
comp!(CDFDense, 10, DerefFlaggedStorage<Self, DenseVecStorage<Self>>, 2, tracked_fns!(););
comp!(CDFBTree, 11, DerefFlaggedStorage<Self, BTreeStorage<Self>>, 2, tracked_fns!(););

/// Zero-sized component in the null storage; its value is always 0.
#[derive(Debug)]
pub struct CNull;
// Zero-sized values are indistinguishable, so they are counted: every value constructed (by the harness or by
// `Default`) must have been destroyed exactly once when the world is gone (checked at `drop_world`, C08).
thread_local! {
    static ZST_MADE: Cell<u64> = Cell::new(0);
    static ZST_DROPPED: Cell<u64> = Cell::new(0);
}
pub fn zst_reset() { ZST_MADE.with(|c| c.set(0)); ZST_DROPPED.with(|c| c.set(0)); FLAGS_Q.with(|c| c.set(0)); FLAGS_RAN.with(|c| c.set(0)); }
thread_local! {
    static FLAGS_Q: Cell<u64> = Cell::new(0);
    static FLAGS_RAN: Cell<u64> = Cell::new(0);
}
pub fn zst_counts() -> (u64, u64) { (ZST_MADE.with(|c| c.get()), ZST_DROPPED.with(|c| c.get())) }
impl Default for CNull {
    fn default() -> Self { ZST_MADE.with(|c| c.set(c.get() + 1)); CNull }
}
impl Drop for CNull {
    fn drop(&mut self) {
        ZST_DROPPED.with(|c| c.set(c.get() + 1));
        note_drop(0);
    }
}
impl Component for CNull {
    type Storage = NullStorage<Self>;
}
impl Comp for CNull {
    const KIND: usize = 5;
    const TRACKED: u8 = 0;
    fn new(_: i64) -> Self { CNull::default() }
    fn val(&self) -> i64 { 0 }
    fn set(&mut self, _: i64) {}
    shared_rjoin_fn!();
}

/// `VH_ZST6=1`: kind 6 (`FlaggedStorage` over `VecStorage`) holds a ZERO-SIZED component instead of `CFVec` (value always
/// 0, like kind 5): what a tracked storage reports must not depend on the size of the component type (C12).
pub fn zst6() -> bool {
    static Z: std::sync::OnceLock<bool> = std::sync::OnceLock::new();
    *Z.get_or_init(|| std::env::var("VH_ZST6").map(|v| v == "1").unwrap_or(false))
}
/// `VH_POD=1`: kinds 1 (`DenseVecStorage`), 2 (`DefaultVecStorage`), 8 and 9 (tracked) hold component types WITHOUT a destructor
/// (`Copy` data): what a storage reports must not depend on whether the component type needs dropping (C04).
/// (No ledger in these runs: nothing announces the destruction of such a value.)
pub fn pod() -> bool {
    static Z: std::sync::OnceLock<bool> = std::sync::OnceLock::new();
    *Z.get_or_init(|| std::env::var("VH_POD").map(|v| v == "1").unwrap_or(false))
}
pub fn is_null_kind(k: usize) -> bool { k == 5 || (k == 6 && zst6()) }

#[derive(Debug, Default)]
pub struct CFVecZ;
impl Drop for CFVecZ {
    fn drop(&mut self) { note_drop(0); }
}
impl Component for CFVecZ {
    type Storage = FlaggedStorage<Self, VecStorage<Self>>;
}
impl Comp for CFVecZ {
    const KIND: usize = 6;
    const TRACKED: u8 = 1;
    fn new(_: i64) -> Self { CFVecZ }
    fn val(&self) -> i64 { 0 }
    fn set(&mut self, _: i64) {}
    tracked_fns!();
    shared_rjoin_fn!();
}

pub const NUM_KINDS: usize = 12;
/// The harness is built against specs without the `storage-event-control` feature (`harness/np`).
pub const NO_EVENT_CONTROL: bool = cfg!(feature = "np");

macro_rules! with_kind {
    ($k:expr, $T:ident => $body:expr) => {
        match $k {
            0 => { type $T = CVec; $body }
            1 => { if pod() { type $T = CDenseP; $body } else { type $T = CDense; $body } }
            2 => { if pod() { type $T = CDvecP; $body } else { type $T = CDvec; $body } }
            3 => { type $T = CHash; $body }
            4 => { type $T = CBTree; $body }
            5 => { type $T = CNull; $body }
            6 => { if zst6() { type $T = CFVecZ; $body } else { type $T = CFVec; $body } }
            7 => { type $T = CFDense; $body }
            8 => { if pod() { type $T = CFHashP; $body } else { type $T = CFHash; $body } }
            9 => { if pod() { type $T = CDFVecP; $body } else { type $T = CDFVec; $body } }
            10 => { type $T = CDFDense; $body }
            _ => { type $T = CDFBTree; $body }
        }
    };
}

// ------------------------------------------------------------------------------------------
// Ops

#[derive(Clone, Debug, PartialEq)]
pub enum EntryOp {
    OrInsert { v: i64, derefs: u32, write: Option<i64> },
    Replace(i64),
    Remove,
}

#[derive(Clone, Debug, PartialEq)]
pub enum RAct {
    Skip,
    Get,
    GetMut { derefs: u32, write: Option<i64> },
    GetOther(usize),
    GetOtherMut { h: usize, derefs: u32, write: Option<i64> },
}

#[derive(Clone, Debug, PartialEq)]
pub enum Op {
    Create { atomic: bool, dropped: bool },
    CreateIter { atomic: bool, n: usize },
    DelNow(usize),
    DelBatch(Vec<usize>),
    DelAtomic(usize),
    DelAll,
    Maintain,
    Alive(usize),
    WAlive(usize),
    EJoin,
    /// `(&entities).par_join()` collected and sorted by index (same model op as `ejoin`)
    EJoinPar,
    Reg(usize, u8),
    CreateW { atomic: bool, dropped: bool, comps: Vec<(usize, i64)> },
    Get(usize, usize),
    GetMut { k: usize, h: usize, derefs: u32, write: Option<i64> },
    Has(usize, usize),
    Ins(usize, usize, i64),
    Rem(usize, usize),
    Entry(usize, usize, EntryOp),
    MutOrDefault { k: usize, h: usize, derefs: u32, write: Option<i64> },
    Count(usize),
    Empty(usize),
    Mask(usize),
    Clear(usize),
    Drain(usize, usize),
    Slice(usize),
    Emit(usize, bool),
    Events(usize),
    LazyIns(usize, usize, i64),
    LazyInsAll(usize, Vec<(usize, i64)>),
    LazyRem(usize, usize),
    LazyCreate(Vec<(usize, i64)>),
    /// `lazy_create_nobuild …`: the same lazily built entity, but the builder is dropped without `build()` after its entity
    /// has been read from the public field: every `with` has queued its insertion already — same model op as `lazy_create`
    LazyCreateNoBuild(Vec<(usize, i64)>),
    LazyExec(Vec<Op>),
    /// `shared`: mutable restricted join through `.join()` (items are `PairedStorageWriteShared`: get / get_mut only)
    /// instead of `.lend_join()` (`PairedStorageWriteExclusive`); printed as mode `x`.
    RJoin { k: usize, mutable: bool, shared: bool, acts: Vec<RAct> },
    DropWorld,
    Fault(u64),
    /// The same storage operation through the `GenericReadStorage` / `GenericWriteStorage` traits (inner op is one of
    /// Get, GetMut, Ins, Rem); printed with a leading `g` (`gget`, `ggetmut`, `gins`, `grem`). Same model operation.
    /// `GenericWriteStorage::remove` returns nothing: the harness reads the value first and does not log its destruction,
    /// so that the line reads like `rem`.
    Generic(Box<Op>),
    /// `uins k @h v` (C19): the same insertion (inner op is `Ins`) executed from the destructor of a scope guard WHILE a
    /// destructor panic unwinds (`std::thread::panicking()` is true during the whole call); the unwind is caught. An insertion
    /// is an insertion whenever it runs: same model operation, same result, nothing destroyed but a replaced value.
    Unwinding(Box<Op>),
    /// `lget` / `lgetmut`: the same look-up through a lending join of the one storage,
    /// `(&st).lend_join().get(e, &entities)` / `(&mut st).lend_join().get(e, &entities)` (`JoinLendIter::get`): same model ops.
    Lend(Box<Op>),
    /// `ldrain2 k @h`: `st.drain().lend_join()`, then `get(e, &entities)` TWICE for the same entity. The first look-up is a
    /// removal (model op `rem`); the component has been moved out, so the second one must not produce it again (the
    /// crate panics: "Tried to access same index twice"). Result `<first> / <second>`, second = `panic` | `none` | `some v`.
    LendDrain2(usize, usize),
    /// `lentry2 k @h v`: `st.entries().lend_join()`, then `get(e, &entities)` twice for the same entity: the first entry
    /// gets `or_insert(v)` (model op `entry_or k @h v 0`), the second look-up must show the component as occupied with the
    /// value it has now — a mutation made through an item of a lending join is visible to a later look-up of the same join.
    /// Result `<first> / <second>`: first = `vac` | `occ <old>` | `err` (dead handle), second = `occ <v>` | `vac` | `none`.
    LendEntry2(usize, usize, i64),
    /// Queues a lazy action that panics (outside the model; always followed by the case's final `maintain`, whose unwind the
    /// harness catches). What happens in this world afterwards is not specified — the point is that OTHER worlds of the
    /// process must behave as if it had not happened (C20).
    LazyPanic,
    /// After a caught panic the world must still be usable: queues a lazy action that sets a flag, calls `maintain`,
    /// and reports `ran` / `notrun` (outside the model; only generated after `lazy_panic; maintain`).
    LazyProbe,
    /// `lazy_flag`: queues a lazy action that only counts itself (no effect on the world, nothing destroyed; outside the
    /// model). `lazy_flag_check` prints how many were queued and how many have run: an action queued before a `maintain`
    /// whose purge panicked (caught) is still queued and runs in the next `maintain` (C19 "remains usable", C09).
    LazyFlag,
    LazyFlagCheck,
    /// Probe outside the model: `entry_inner(2^24 + 1).or_insert(v)` — the mask refuses the index (panic inside
    /// `BitSet::add`), and the value handed over must still be destroyed exactly once (C08; no destructor panics).
    /// Only generated as the last op before `drop_world`, for kinds whose storage tolerates the far index cheaply.
    EntryFar(usize, i64),
    Dump,
}

fn show_comps(out: &mut String, comps: &[(usize, i64)]) {
    for (k, v) in comps {
        write!(out, " {}:{}", k, v).unwrap();
    }
}
fn show_dw(out: &mut String, derefs: u32, write: &Option<i64>) {
    write!(out, " {}", derefs).unwrap();
    if let Some(w) = write {
        write!(out, " w={}", w).unwrap();
    }
}

pub fn show_op(op: &Op) -> String {
    let mut s = String::new();
    match op {
        Op::Create { atomic, dropped } => write!(s, "create {}{}", if *atomic { "atomic" } else { "now" }, if *dropped { "_dropped" } else { "" }).unwrap(),
        Op::CreateIter { atomic, n } => write!(s, "create_iter {} {}", if *atomic { "atomic" } else { "now" }, n).unwrap(),
        Op::DelNow(h) => write!(s, "del_now @{}", h).unwrap(),
        Op::DelBatch(hs) => {
            s.push_str("del_batch");
            for h in hs { write!(s, " @{}", h).unwrap(); }
        }
        Op::DelAtomic(h) => write!(s, "del_atomic @{}", h).unwrap(),
        Op::DelAll => s.push_str("del_all"),
        Op::Maintain => s.push_str("maintain"),
        Op::Alive(h) => write!(s, "alive @{}", h).unwrap(),
        Op::WAlive(h) => write!(s, "walive @{}", h).unwrap(),
        Op::EJoin => s.push_str("ejoin"),
        Op::EJoinPar => s.push_str("pejoin"),
        Op::Reg(k, p) => write!(s, "reg {} {}", k, p).unwrap(),
        Op::CreateW { atomic, dropped, comps } => {
            write!(s, "createw {}{}", if *atomic { "atomic" } else { "now" }, if *dropped { "_dropped" } else { "" }).unwrap();
            show_comps(&mut s, comps);
        }
        Op::Get(k, h) => write!(s, "get {} @{}", k, h).unwrap(),
        Op::GetMut { k, h, derefs, write } => { write!(s, "getmut {} @{}", k, h).unwrap(); show_dw(&mut s, *derefs, write); }
        Op::Has(k, h) => write!(s, "has {} @{}", k, h).unwrap(),
        Op::Ins(k, h, v) => write!(s, "ins {} @{} {}", k, h, v).unwrap(),
        Op::Rem(k, h) => write!(s, "rem {} @{}", k, h).unwrap(),
        Op::Entry(k, h, EntryOp::OrInsert { v, derefs, write }) => { write!(s, "entry_or {} @{} {}", k, h, v).unwrap(); show_dw(&mut s, *derefs, write); }
        Op::Entry(k, h, EntryOp::Replace(v)) => write!(s, "entry_rep {} @{} {}", k, h, v).unwrap(),
        Op::Entry(k, h, EntryOp::Remove) => write!(s, "entry_rem {} @{}", k, h).unwrap(),
        Op::MutOrDefault { k, h, derefs, write } => { write!(s, "mut_or_default {} @{}", k, h).unwrap(); show_dw(&mut s, *derefs, write); }
        Op::Count(k) => write!(s, "count {}", k).unwrap(),
        Op::Empty(k) => write!(s, "empty {}", k).unwrap(),
        Op::Mask(k) => write!(s, "mask {}", k).unwrap(),
        Op::Clear(k) => write!(s, "clear {}", k).unwrap(),
        Op::Drain(k, n) => write!(s, "drain {} {}", k, n).unwrap(),
        Op::Slice(k) => write!(s, "slice {}", k).unwrap(),
        Op::Emit(k, b) => write!(s, "emit {} {}", k, if *b { "t" } else { "f" }).unwrap(),
        Op::Events(k) => write!(s, "events {}", k).unwrap(),
        Op::LazyIns(k, h, v) => write!(s, "lazy_ins {} @{} {}", k, h, v).unwrap(),
        Op::LazyInsAll(k, items) => {
            write!(s, "lazy_ins_all {}", k).unwrap();
            for (h, v) in items { write!(s, " @{}:{}", h, v).unwrap(); }
        }
        Op::LazyRem(k, h) => write!(s, "lazy_rem {} @{}", k, h).unwrap(),
        Op::LazyCreate(comps) => { s.push_str("lazy_create"); show_comps(&mut s, comps); }
        Op::LazyCreateNoBuild(comps) => { s.push_str("lazy_create_nobuild"); show_comps(&mut s, comps); }
        Op::LazyExec(script) => {
            s.push_str("lazy_exec [");
            for (i, o) in script.iter().enumerate() {
                if i > 0 { s.push_str(" ;"); }
                s.push(' ');
                s.push_str(&show_op(o));
            }
            s.push_str(" ]");
        }
        Op::RJoin { k, mutable, shared, acts } => {
            write!(s, "rjoin {} {}", k, if *mutable { if *shared { "x" } else { "m" } } else { "s" }).unwrap();
            for a in acts {
                match a {
                    RAct::Skip => s.push_str(" skip"),
                    RAct::Get => s.push_str(" get"),
                    RAct::GetMut { derefs, write } => { write!(s, " mut:{}", derefs).unwrap(); if let Some(w) = write { write!(s, ":{}", w).unwrap(); } }
                    RAct::GetOther(h) => write!(s, " other:@{}", h).unwrap(),
                    RAct::GetOtherMut { h, derefs, write } => { write!(s, " othermut:@{}:{}", h, derefs).unwrap(); if let Some(w) = write { write!(s, ":{}", w).unwrap(); } }
                }
            }
        }
        Op::DropWorld => s.push_str("drop_world"),
        Op::Fault(n) => write!(s, "fault {}", n).unwrap(),
        Op::Generic(inner) => { s.push('g'); s.push_str(&show_op(inner)); }
        Op::Unwinding(inner) => { s.push('u'); s.push_str(&show_op(inner)); }
        Op::Lend(inner) => { s.push('l'); s.push_str(&show_op(inner)); }
        Op::LendDrain2(k, h) => write!(s, "ldrain2 {} @{}", k, h).unwrap(),
        Op::LendEntry2(k, h, v) => write!(s, "lentry2 {} @{} {}", k, h, v).unwrap(),
        Op::EntryFar(k, v) => write!(s, "entry_far {} {}", k, v).unwrap(),
        Op::LazyPanic => s.push_str("lazy_panic"),
        Op::LazyProbe => s.push_str("lazy_probe"),
        Op::LazyFlag => s.push_str("lazy_flag"),
        Op::LazyFlagCheck => s.push_str("lazy_flag_check"),
        Op::Dump => s.push_str("dump"),
    }
    s
}

fn slot(s: &str) -> Option<usize> {
    s.strip_prefix('@')?.parse().ok()
}
fn comps(ts: &[&str]) -> Option<Vec<(usize, i64)>> {
    ts.iter().map(|t| { let (k, v) = t.split_once(':')?; Some((k.parse().ok()?, v.parse().ok()?)) }).collect()
}
fn dw(ts: &[&str]) -> Option<(u32, Option<i64>)> {
    match ts {
        [d] => Some((d.parse().ok()?, None)),
        [d, w] => Some((d.parse().ok()?, Some(w.strip_prefix("w=")?.parse().ok()?))),
        _ => None,
    }
}

pub fn parse_ops(ts: &[&str]) -> Option<Op> {
    Some(match ts {
        ["create", "now"] => Op::Create { atomic: false, dropped: false },
        ["create", "now_dropped"] => Op::Create { atomic: false, dropped: true },
        ["create", "atomic"] => Op::Create { atomic: true, dropped: false },
        ["create", "atomic_dropped"] => Op::Create { atomic: true, dropped: true },
        ["create_iter", "now", n] => Op::CreateIter { atomic: false, n: n.parse().ok()? },
        ["create_iter", "atomic", n] => Op::CreateIter { atomic: true, n: n.parse().ok()? },
        ["del_now", h] => Op::DelNow(slot(h)?),
        ["del_batch", hs @ ..] => Op::DelBatch(hs.iter().map(|h| slot(h)).collect::<Option<_>>()?),
        ["del_atomic", h] => Op::DelAtomic(slot(h)?),
        ["del_all"] => Op::DelAll,
        ["maintain"] => Op::Maintain,
        ["alive", h] => Op::Alive(slot(h)?),
        ["walive", h] => Op::WAlive(slot(h)?),
        ["ejoin"] => Op::EJoin,
        ["pejoin"] => Op::EJoinPar,
        ["reg", k, p] => Op::Reg(k.parse().ok()?, p.parse().ok()?),
        ["createw", mode, cs @ ..] => {
            let (atomic, dropped) = match *mode {
                "now" => (false, false), "now_dropped" => (false, true),
                "atomic" => (true, false), "atomic_dropped" => (true, true), _ => return None };
            Op::CreateW { atomic, dropped, comps: comps(cs)? }
        }
        ["get", k, h] => Op::Get(k.parse().ok()?, slot(h)?),
        ["getmut", k, h, rest @ ..] => { let (derefs, write) = dw(rest)?; Op::GetMut { k: k.parse().ok()?, h: slot(h)?, derefs, write } }
        ["has", k, h] => Op::Has(k.parse().ok()?, slot(h)?),
        ["ins", k, h, v] => Op::Ins(k.parse().ok()?, slot(h)?, v.parse().ok()?),
        ["rem", k, h] => Op::Rem(k.parse().ok()?, slot(h)?),
        ["entry_or", k, h, v, rest @ ..] => { let (derefs, write) = dw(rest)?; Op::Entry(k.parse().ok()?, slot(h)?, EntryOp::OrInsert { v: v.parse().ok()?, derefs, write }) }
        ["entry_rep", k, h, v] => Op::Entry(k.parse().ok()?, slot(h)?, EntryOp::Replace(v.parse().ok()?)),
        ["entry_rem", k, h] => Op::Entry(k.parse().ok()?, slot(h)?, EntryOp::Remove),
        ["mut_or_default", k, h, rest @ ..] => { let (derefs, write) = dw(rest)?; Op::MutOrDefault { k: k.parse().ok()?, h: slot(h)?, derefs, write } }
        ["count", k] => Op::Count(k.parse().ok()?),
        ["empty", k] => Op::Empty(k.parse().ok()?),
        ["mask", k] => Op::Mask(k.parse().ok()?),
        ["clear", k] => Op::Clear(k.parse().ok()?),
        ["drain", k, n] => Op::Drain(k.parse().ok()?, n.parse().ok()?),
        ["slice", k] => Op::Slice(k.parse().ok()?),
        ["emit", k, b] => Op::Emit(k.parse().ok()?, *b == "t"),
        ["events", k] => Op::Events(k.parse().ok()?),
        ["lazy_ins", k, h, v] => Op::LazyIns(k.parse().ok()?, slot(h)?, v.parse().ok()?),
        ["lazy_ins_all", k, items @ ..] => Op::LazyInsAll(k.parse().ok()?, items.iter().map(|t| { let (h, v) = t.split_once(':')?; Some((slot(h)?, v.parse().ok()?)) }).collect::<Option<_>>()?),
        ["lazy_rem", k, h] => Op::LazyRem(k.parse().ok()?, slot(h)?),
        ["lazy_create", cs @ ..] => Op::LazyCreate(comps(cs)?),
        ["lazy_create_nobuild", cs @ ..] => Op::LazyCreateNoBuild(comps(cs)?),
        ["lazy_exec", "[", inner @ .., "]"] => {
            // split on ';' at bracket depth 0
            let mut script = Vec::new();
            let mut depth = 0;
            let mut cur: Vec<&str> = Vec::new();
            for t in inner {
                match *t {
                    "[" => { depth += 1; cur.push(t); }
                    "]" => { depth -= 1; cur.push(t); }
                    ";" if depth == 0 => { if !cur.is_empty() { script.push(parse_ops(&cur)?); cur.clear(); } }
                    _ => cur.push(t),
                }
            }
            if !cur.is_empty() { script.push(parse_ops(&cur)?); }
            Op::LazyExec(script)
        }
        ["rjoin", k, m, acts @ ..] => {
            let mut v = Vec::new();
            for a in acts {
                let ps: Vec<&str> = a.split(':').collect();
                v.push(match ps.as_slice() {
                    ["skip"] => RAct::Skip,
                    ["get"] => RAct::Get,
                    ["mut", d] => RAct::GetMut { derefs: d.parse().ok()?, write: None },
                    ["mut", d, w] => RAct::GetMut { derefs: d.parse().ok()?, write: Some(w.parse().ok()?) },
                    ["other", h] => RAct::GetOther(slot(h)?),
                    ["othermut", h, d] => RAct::GetOtherMut { h: slot(h)?, derefs: d.parse().ok()?, write: None },
                    ["othermut", h, d, w] => RAct::GetOtherMut { h: slot(h)?, derefs: d.parse().ok()?, write: Some(w.parse().ok()?) },
                    _ => return None,
                });
            }
            if *m == "x" && v.iter().any(|a| matches!(a, RAct::GetOther(_) | RAct::GetOtherMut { .. })) { return None; }
            Op::RJoin { k: k.parse().ok()?, mutable: *m == "m" || *m == "x", shared: *m == "x", acts: v }
        }
        ["drop_world"] => Op::DropWorld,
        ["fault", n] => Op::Fault(n.parse().ok()?),
        [g, rest @ ..] if ["gget", "ggetmut", "gins", "grem"].contains(g) => {
            let mut v: Vec<&str> = vec![&g[1..]];
            v.extend_from_slice(rest);
            Op::Generic(Box::new(parse_ops(&v)?))
        }
        ["uins", rest @ ..] => {
            let mut v: Vec<&str> = vec!["ins"];
            v.extend_from_slice(rest);
            Op::Unwinding(Box::new(parse_ops(&v)?))
        }
        [g, rest @ ..] if ["lget", "lgetmut"].contains(g) => {
            let mut v: Vec<&str> = vec![&g[1..]];
            v.extend_from_slice(rest);
            Op::Lend(Box::new(parse_ops(&v)?))
        }
        ["ldrain2", k, h] => Op::LendDrain2(k.parse().ok()?, slot(h)?),
        ["lentry2", k, h, v] => Op::LendEntry2(k.parse().ok()?, slot(h)?, v.parse().ok()?),
        ["entry_far", k, v] => Op::EntryFar(k.parse().ok()?, v.parse().ok()?),
        ["lazy_panic"] => Op::LazyPanic,
        ["lazy_probe"] => Op::LazyProbe,
        ["lazy_flag"] => Op::LazyFlag,
        ["lazy_flag_check"] => Op::LazyFlagCheck,
        ["dump"] => Op::Dump,
        _ => return None,
    })
}

pub fn parse_op(line: &str) -> Option<Op> {
    let l = line.split(" => ").next().unwrap().trim();
    let l = l.split(" ! ").next().unwrap();
    let ts: Vec<&str> = l.split_whitespace().collect();
    parse_ops(&ts)
}

pub fn show_entity(e: Entity) -> String {
    format!("{}:{}", e.id(), e.gen().id())
}

// ------------------------------------------------------------------------------------------
// Executor

#[derive(Default)]
pub struct Ctx {
    pub log: Vec<Entity>,
    pub sub: Vec<String>,        // transcript lines of ops run inside lazily executed scripts
    pub ran: Vec<u64>,           // tags of lazily executed scripts, in execution order
    pub next_tag: u64,
    pub readers: Vec<Option<Box<dyn std::any::Any + Send>>>,
    pub registered: [bool; NUM_KINDS],
}

pub type Shared = Arc<Mutex<Ctx>>;

pub struct Exec {
    pub world: Option<World>,
    pub ctx: Shared,
    pub pending_fault: Option<u64>,
    /// a destructor fault was armed in this case (leaks are then allowed: C19)
    pub faulted: bool,
}

fn resolve(ctx: &Shared, k: usize) -> Option<Entity> {
    let c = ctx.lock().unwrap();
    if c.log.is_empty() { None } else { Some(c.log[k % c.log.len()]) }
}

fn opt_val<T: Comp>(o: Option<&T>) -> String {
    match o { Some(c) => format!("some {}", c.val()), None => "none".into() }
}

fn apply_access<T: Comp, A: AccessMut<Target = T>>(mut acc: A, derefs: u32, write: Option<i64>) {
    for i in 0..derefs {
        let r = acc.access_mut();
        if i + 1 == derefs {
            if let Some(w) = write { r.set(w); }
        }
    }
}

fn build_with<'a, B: Builder>(mut b: B, comps: &[(usize, i64)]) -> B {
    for &(k, v) in comps {
        b = with_kind!(k, T => b.with(T::new(v)));
    }
    b
}

pub fn exec_op(world: &mut World, ctx: &Shared, op: &Op) -> String {
    let r = catch_unwind(AssertUnwindSafe(|| exec_inner(world, ctx, op)));
    match r { Ok(s) => s, Err(_) => "panic".into() }
}

fn is_reg(ctx: &Shared, k: usize) -> bool {
    k < NUM_KINDS && ctx.lock().unwrap().registered[k]
}

fn exec_inner(world: &mut World, ctx: &Shared, op: &Op) -> String {
    match op {
        Op::Create { atomic: false, dropped } => {
            let e = if *dropped { let b = world.create_entity(); let e = b.entity; drop(b); e } else { world.create_entity().build() };
            ctx.lock().unwrap().log.push(e);
            format!("e {}", show_entity(e))
        }
        Op::Create { atomic: true, dropped } => {
            let e = { let ents = world.entities(); if *dropped { let b = ents.build_entity(); let e = b.entity; drop(b); e } else { ents.create() } };
            ctx.lock().unwrap().log.push(e);
            format!("e {}", show_entity(e))
        }
        Op::CreateIter { atomic, n } => {
            let es: Vec<Entity> = if *atomic {
                let ents = world.entities();
                if *n >= 3 && *n % 2 == 1 {
                    // odd counts: the iterator stays alive while other deferred creations happen (first and last entity
                    // from the iterator, the ones in between from `Entities::create`) — the same allocations in the same order
                    let mut it = ents.create_iter();
                    let mut v = vec![it.next().unwrap()];
                    for _ in 0..(*n - 2) { v.push(ents.create()); }
                    v.push(it.next().unwrap());
                    drop(it);
                    v
                } else {
                    let v = ents.create_iter().take(*n).collect(); v
                }
            } else { world.create_iter().take(*n).collect() };
            let mut s = String::from("es");
            for e in &es { write!(s, " {}", show_entity(*e)).unwrap(); }
            ctx.lock().unwrap().log.extend(es);
            s
        }
        Op::DelNow(h) => match resolve(ctx, *h) {
            None => "skip".into(),
            Some(e) => match world.delete_entity(e) { Ok(()) => "ok".into(), Err(_) => "err".into() },
        },
        Op::DelBatch(hs) => {
            if ctx.lock().unwrap().log.is_empty() { return "skip".into(); }
            let es: Vec<Entity> = hs.iter().map(|h| resolve(ctx, *h).unwrap()).collect();
            match world.delete_entities(&es) { Ok(()) => "ok".into(), Err((_, pos)) => format!("err {}", pos) }
        }
        Op::DelAtomic(h) => match resolve(ctx, *h) {
            None => "skip".into(),
            Some(e) => match world.entities().delete(e) { Ok(()) => "ok".into(), Err(_) => "err".into() },
        },
        Op::DelAll => { world.delete_all(); "ok".into() }
        Op::Maintain => {
            let before = ctx.lock().unwrap().ran.len();
            world.maintain();
            let c = ctx.lock().unwrap();
            let mut s = String::from("acts");
            for t in &c.ran[before..] { write!(s, " {}", t).unwrap(); }
            s
        }
        Op::Alive(h) => match resolve(ctx, *h) {
            None => "skip".into(),
            Some(e) => { let ents: specs::Read<EntitiesRes> = world.entities(); if ents.is_alive(e) { "t".into() } else { "f".into() } }
        },
        Op::WAlive(h) => match resolve(ctx, *h) {
            None => "skip".into(),
            Some(e) => if world.is_alive(e) { "t".into() } else { "f".into() },
        },
        Op::EJoin => {
            let ents = world.entities();
            let mut s = String::from("es");
            for e in (&*ents).join() { write!(s, " {}", show_entity(e)).unwrap(); }
            s
        }
        // the parallel join over the entities, sorted by index: the same set (same model op as `ejoin`)
        Op::EJoinPar => {
            let ents = world.entities();
            #[cfg(not(feature = "np"))]
            let mut v: Vec<Entity> = { use specs::rayon::iter::ParallelIterator as _; (&*ents).par_join().collect() };
            #[cfg(feature = "np")]
            let mut v: Vec<Entity> = (&*ents).join().collect();
            v.sort_by_key(|e| e.id());
            let mut s = String::from("es");
            for e in v { write!(s, " {}", show_entity(e)).unwrap(); }
            s
        }
        Op::Reg(k, path) => {
            if *k >= NUM_KINDS { return "ok".into(); }
            with_kind!(*k, T => {
                match path {
                    0 => world.register::<T>(),
                    1 => world.register_with_storage::<_, T>(Default::default),
                    // the storage is first put into the world as a plain resource (unknown to the purge table), then made
                    // known by system-data setup
                    3 => {
                        if !world.has_value::<specs::storage::MaskedStorage<T>>() {
                            world.insert(specs::storage::MaskedStorage::<T>::new(Default::default()));
                        }
                        if *k % 2 == 0 { <WriteStorage<T> as SystemData>::setup(world) } else { <ReadStorage<T> as SystemData>::setup(world) }
                    }
                    _ => { if *k % 2 == 0 { <ReadStorage<T> as SystemData>::setup(world) } else { <WriteStorage<T> as SystemData>::setup(world) } }
                }
                let mut c = ctx.lock().unwrap();
                if !c.registered[*k] {
                    c.registered[*k] = true;
                    let mut st = world.write_storage::<T>();
                    c.readers[*k] = T::register_reader(&mut st);
                }
            });
            "ok".into()
        }
        Op::CreateW { atomic, dropped, comps } => {
            for (k, _) in comps { if !is_reg(ctx, *k) { return "nostore".into(); } }
            let e = if !*atomic {
                let b = build_with(world.create_entity(), comps);
                if *dropped { let e = b.entity; drop(b); e } else { b.build() }
            } else {
                let ents = world.entities();
                let mut b = ents.build_entity();
                for &(k, v) in comps {
                    b = with_kind!(k, T => { let mut st = world.write_storage::<T>(); b.with(T::new(v), &mut st) });
                }
                if *dropped { let e = b.entity; drop(b); e } else { b.build() }
            };
            ctx.lock().unwrap().log.push(e);
            format!("e {}", show_entity(e))
        }
        Op::Get(k, h) => {
            if !is_reg(ctx, *k) { return "nostore".into(); }
            let e = match resolve(ctx, *h) { Some(e) => e, None => return "skip".into() };
            with_kind!(*k, T => { let st = world.read_storage::<T>(); opt_val(st.get(e)) })
        }
        Op::GetMut { k, h, derefs, write } => {
            if !is_reg(ctx, *k) { return "nostore".into(); }
            let e = match resolve(ctx, *h) { Some(e) => e, None => return "skip".into() };
            with_kind!(*k, T => {
                let mut st = world.write_storage::<T>();
                let old = st.get(e).map(|c| c.val());
                match st.get_mut(e) {
                    Some(acc) => { apply_access::<T, _>(acc, *derefs, *write); format!("some {}", old.unwrap_or(-999)) }
                    None => "none".into(),
                }
            })
        }
        Op::Has(k, h) => {
            if !is_reg(ctx, *k) { return "nostore".into(); }
            let e = match resolve(ctx, *h) { Some(e) => e, None => return "skip".into() };
            with_kind!(*k, T => { let st = world.read_storage::<T>(); if st.contains(e) { "t".into() } else { "f".into() } })
        }
        Op::Ins(k, h, v) => {
            if !is_reg(ctx, *k) { return "nostore".into(); }
            let e = match resolve(ctx, *h) { Some(e) => e, None => return "skip".into() };
            with_kind!(*k, T => {
                let mut st = world.write_storage::<T>();
                match st.insert(e, T::new(*v)) {
                    Ok(None) => "ins".into(),
                    Ok(Some(old)) => { let s = format!("rep {}", old.val()); log_pause(|| drop(old)); s }
                    Err(_) => "err".into(),
                }
            })
        }
        Op::Rem(k, h) => {
            if !is_reg(ctx, *k) { return "nostore".into(); }
            let e = match resolve(ctx, *h) { Some(e) => e, None => return "skip".into() };
            with_kind!(*k, T => {
                let mut st = world.write_storage::<T>();
                match st.remove(e) {
                    Some(old) => { let s = format!("some {}", old.val()); log_pause(|| drop(old)); s }
                    None => "none".into(),
                }
            })
        }
        Op::Entry(k, h, eop) => {
            if !is_reg(ctx, *k) { return "nostore".into(); }
            let e = match resolve(ctx, *h) { Some(e) => e, None => return "skip".into() };
            with_kind!(*k, T => {
                let mut st = world.write_storage::<T>();
                let old = st.get(e).map(|c| c.val());
                let r = match st.entry(e) {
                    Err(_) => "err".to_string(),
                    Ok(entry) => match eop {
                        EntryOp::OrInsert { v, derefs, write } => {
                            let occ = matches!(entry, StorageEntry::Occupied(_));
                            let acc = entry.or_insert(T::new(*v));
                            apply_access::<T, _>(acc, *derefs, *write);
                            if occ { format!("occ {}", old.unwrap_or(-999)) } else { "vac".into() }
                        }
                        EntryOp::Replace(v) => match entry.replace(T::new(*v)) {
                            Some(o) => { let s = format!("occ {}", o.val()); log_pause(|| drop(o)); s }
                            None => "vac".into(),
                        },
                        EntryOp::Remove => match entry {
                            StorageEntry::Occupied(o) => { let c = o.remove(); let s = format!("occ {}", c.val()); log_pause(|| drop(c)); s }
                            StorageEntry::Vacant(_) => "vac".into(),
                        },
                    },
                };
                r
            })
        }
        Op::MutOrDefault { k, h, derefs, write } => {
            if !is_reg(ctx, *k) { return "nostore".into(); }
            let e = match resolve(ctx, *h) { Some(e) => e, None => return "skip".into() };
            with_kind!(*k, T => {
                use specs::storage::GenericWriteStorage;
                let mut st = world.write_storage::<T>();
                let old = st.get(e).map(|c| c.val());
                // odd handle slots: the `impl GenericWriteStorage for &mut WriteStorage` (a separate implementation of the
                // same contract); even ones: the impl for `WriteStorage` itself
                if *h % 2 == 1 {
                    let mut r = &mut st;
                    match GenericWriteStorage::get_mut_or_default(&mut r, e) {
                        Some(acc) => { apply_access::<T, _>(acc, *derefs, *write); format!("some {}", old.unwrap_or(0)) }
                        None => "none".into(),
                    }
                } else {
                match GenericWriteStorage::get_mut_or_default(&mut st, e) {
                    Some(acc) => { apply_access::<T, _>(acc, *derefs, *write); format!("some {}", old.unwrap_or(0)) }
                    None => "none".into(),
                }
                }
            })
        }
        Op::Count(k) => { if !is_reg(ctx, *k) { return "nostore".into(); } with_kind!(*k, T => format!("n {}", world.read_storage::<T>().count())) }
        Op::Empty(k) => { if !is_reg(ctx, *k) { return "nostore".into(); } with_kind!(*k, T => if world.read_storage::<T>().is_empty() { "t".into() } else { "f".into() }) }
        Op::Mask(k) => {
            if !is_reg(ctx, *k) { return "nostore".into(); }
            with_kind!(*k, T => { let st = world.read_storage::<T>(); let mut s = String::from("ids"); for i in mask_ids(&st) { write!(s, " {}", i).unwrap(); } s })
        }
        Op::Clear(k) => { if !is_reg(ctx, *k) { return "nostore".into(); } with_kind!(*k, T => { world.write_storage::<T>().clear(); "ok".into() }) }
        Op::Drain(k, n) => {
            if !is_reg(ctx, *k) { return "nostore".into(); }
            with_kind!(*k, T => {
                let ents = world.entities();
                let mut st = world.write_storage::<T>();
                let mut s = String::from("pairs");
                let mut taken = Vec::new();
                for (e, c) in (&*ents, st.drain()).join().take(*n) { write!(s, " {}:{}", e.id(), c.val()).unwrap(); taken.push(c); }
                log_pause(|| drop(taken));
                s
            })
        }
        Op::Slice(k) => { if !is_reg(ctx, *k) { return "nostore".into(); } with_kind!(*k, T => { let st = world.read_storage::<T>(); T::slice_view(&st) }) }
        Op::Emit(k, b) => { if !is_reg(ctx, *k) { return "nostore".into(); } with_kind!(*k, T => { let mut st = world.write_storage::<T>(); T::set_emit(&mut st, *b); "ok".into() }) }
        Op::Events(k) => {
            if !is_reg(ctx, *k) { return "nostore".into(); }
            with_kind!(*k, T => { let st = world.read_storage::<T>(); let mut c = ctx.lock().unwrap(); T::events(&st, &mut c.readers[*k]) })
        }
        Op::LazyIns(k, h, v) => {
            if !is_reg(ctx, *k) { return "nostore".into(); }
            let e = match resolve(ctx, *h) { Some(e) => e, None => return "skip".into() };
            with_kind!(*k, T => world.read_resource::<LazyUpdate>().insert(e, T::new(*v)));
            let mut c = ctx.lock().unwrap(); c.next_tag += 1; format!("q {}", c.next_tag - 1)
        }
        Op::LazyInsAll(k, items) => {
            if !is_reg(ctx, *k) { return "nostore".into(); }
            if ctx.lock().unwrap().log.is_empty() { return "skip".into(); }
            with_kind!(*k, T => {
                let v: Vec<(Entity, T)> = items.iter().map(|(h, v)| (resolve(ctx, *h).unwrap(), T::new(*v))).collect();
                world.read_resource::<LazyUpdate>().insert_all(v);
            });
            let mut c = ctx.lock().unwrap(); c.next_tag += 1; format!("q {}", c.next_tag - 1)
        }
        Op::LazyRem(k, h) => {
            if !is_reg(ctx, *k) { return "nostore".into(); }
            let e = match resolve(ctx, *h) { Some(e) => e, None => return "skip".into() };
            with_kind!(*k, T => world.read_resource::<LazyUpdate>().remove::<T>(e));
            let mut c = ctx.lock().unwrap(); c.next_tag += 1; format!("q {}", c.next_tag - 1)
        }
        Op::LazyCreate(comps) | Op::LazyCreateNoBuild(comps) => {
            for (k, _) in comps { if !is_reg(ctx, *k) { return "nostore".into(); } }
            let e = {
                let ents = world.entities();
                let lazy = world.read_resource::<LazyUpdate>();
                let b = build_with(lazy.create_entity(&ents), comps);
                if let Op::LazyCreateNoBuild(_) = op { let e = b.entity; drop(b); e } else { b.build() }
            };
            let mut c = ctx.lock().unwrap();
            c.next_tag += comps.len() as u64;
            c.log.push(e);
            format!("e {}", show_entity(e))
        }
        Op::LazyExec(script) => {
            let tag = { let mut c = ctx.lock().unwrap(); c.next_tag += 1; c.next_tag - 1 };
            let script = script.clone();
            let ctx2 = ctx.clone();
            world.read_resource::<LazyUpdate>().exec_mut(move |w: &mut World| {
                ctx2.lock().unwrap().ran.push(tag);
                for o in &script {
                    let r = exec_op(w, &ctx2, o);
                    let line = format!("in {} {} => {}", tag, show_op(o), r);
                    ctx2.lock().unwrap().sub.push(line);
                }
            });
            format!("q {}", tag)
        }
        Op::RJoin { k, mutable, shared, acts } => {
            if !is_reg(ctx, *k) { return "nostore".into(); }
            with_kind!(*k, T => {
                let mut out = String::from("items");
                let mut acts_it = acts.iter();
                if *mutable && *shared && T::shared_rjoin(world, &[]).is_some() {
                    // (the probe call above runs an all-skip join: no access, no event)
                    return T::shared_rjoin(world, acts).unwrap();
                } else if *mutable {
                    let mut st = world.write_storage::<T>();
                    let ids = mask_ids_w(&st);
                    let mut restricted = st.restrict_mut();
                    let mut i = 0usize;
                    (&mut restricted).lend_join().for_each(|mut item| {
                        let id = ids[i]; i += 1;
                        let act = acts_it.next().cloned().unwrap_or(RAct::Skip);
                        match act {
                            RAct::Skip => write!(out, " {}:-", id).unwrap(),
                            RAct::Get => write!(out, " {}:v={}", id, item.get().val()).unwrap(),
                            RAct::GetMut { derefs, write } => { let old = item.get().val(); apply_access::<T, _>(item.get_mut(), derefs, write); write!(out, " {}:v={}", id, old).unwrap(); }
                            RAct::GetOther(h) => match resolve(ctx, h) {
                                None => write!(out, " {}:-", id).unwrap(),
                                Some(e) => match item.get_other(e) { Some(c) => write!(out, " {}:some={}", id, c.val()).unwrap(), None => write!(out, " {}:none", id).unwrap() },
                            },
                            RAct::GetOtherMut { h, derefs, write } => match resolve(ctx, h) {
                                None => write!(out, " {}:-", id).unwrap(),
                                Some(e) => {
                                    let own = item.get().val();
                                    let old = item.get_other(e).map(|c| c.val());
                                    match item.get_other_mut(e) { Some(acc) => { apply_access::<T, _>(acc, derefs, write); write!(out, " {}:some={}", id, old.unwrap_or(-999)).unwrap() } None => write!(out, " {}:none", id).unwrap() }
                                    // the item is still the item of ITS entity: a shared read through it (no event) gives
                                    // its own component, as before the look-up of the other entity
                                    if e.id() != id && item.get().val() != own { write!(out, " {}:!retargeted", id).unwrap(); }
                                }
                            },
                        }
                    });
                } else {
                    let st = world.read_storage::<T>();
                    let ids = mask_ids(&st);
                    let restricted = st.restrict();
                    for (i, item) in (&restricted).join().enumerate() {
                        let id = ids[i];
                        let act = acts_it.next().cloned().unwrap_or(RAct::Skip);
                        match act {
                            RAct::Get => write!(out, " {}:v={}", id, item.get().val()).unwrap(),
                            RAct::GetOther(h) => match resolve(ctx, h) {
                                None => write!(out, " {}:-", id).unwrap(),
                                Some(e) => match item.get_other(e) { Some(c) => write!(out, " {}:some={}", id, c.val()).unwrap(), None => write!(out, " {}:none", id).unwrap() },
                            },
                            _ => write!(out, " {}:-", id).unwrap(),
                        }
                    }
                }
                out
            })
        }
        Op::DropWorld => "dropped".into(), // handled by Exec::exec (needs ownership)
        Op::Fault(_) => "ok".into(),        // handled by Exec::exec
        Op::Unwinding(inner) => {
            // `_bomb` is destroyed first and its destructor panics; `_guard` is destroyed while that panic unwinds and
            // performs the inner operation on the world (a panic of the inner operation is caught inside the guard).
            struct Bomb;
            impl Drop for Bomb { fn drop(&mut self) { panic!("verif: destructor panic (unwinding probe)"); } }
            struct Guard<'a>(&'a mut World, &'a Shared, &'a Op, &'a mut Option<String>);
            impl<'a> Drop for Guard<'a> {
                fn drop(&mut self) {
                    let unwinding = std::thread::panicking();
                    let r = catch_unwind(AssertUnwindSafe(|| exec_inner(self.0, self.1, self.2)));
                    *self.3 = Some(match r { Ok(s) if unwinding => s, Ok(_) => "notunwinding".into(), Err(_) => "panic".into() });
                }
            }
            let mut out: Option<String> = None;
            let r = catch_unwind(AssertUnwindSafe(|| { let _guard = Guard(world, ctx, inner, &mut out); let _bomb = Bomb; }));
            if r.is_ok() { return "nopanic".into(); }
            out.unwrap_or_else(|| "notrun".into())
        }
        Op::Generic(inner) => {
            use specs::storage::{GenericReadStorage, GenericWriteStorage};
            match &**inner {
                Op::Get(k, h) => {
                    if !is_reg(ctx, *k) { return "nostore".into(); }
                    let e = match resolve(ctx, *h) { Some(e) => e, None => return "skip".into() };
                    // odd handle slots: the impls for references (`&ReadStorage`, `&WriteStorage`, `&mut WriteStorage`)
                    with_kind!(*k, T => {
                        if *h % 4 == 1 { let st = world.read_storage::<T>(); let r = &st; opt_val(GenericReadStorage::get(&r, e)) }
                        else if *h % 4 == 3 { let st = world.write_storage::<T>(); let r = &st; opt_val(GenericReadStorage::get(&r, e)) }
                        else if *h % 4 == 2 { let st = world.write_storage::<T>(); opt_val(GenericReadStorage::get(&st, e)) }
                        else { let st = world.read_storage::<T>(); opt_val(GenericReadStorage::get(&st, e)) }
                    })
                }
                Op::GetMut { k, h, derefs, write } => {
                    if !is_reg(ctx, *k) { return "nostore".into(); }
                    let e = match resolve(ctx, *h) { Some(e) => e, None => return "skip".into() };
                    with_kind!(*k, T => {
                        let mut st = world.write_storage::<T>();
                        let old = st.get(e).map(|c| c.val());
                        if *h % 2 == 1 {
                            let mut r = &mut st;
                            match GenericWriteStorage::get_mut(&mut r, e) {
                                Some(acc) => { apply_access::<T, _>(acc, *derefs, *write); format!("some {}", old.unwrap_or(-999)) }
                                None => "none".into(),
                            }
                        } else {
                        match GenericWriteStorage::get_mut(&mut st, e) {
                            Some(acc) => { apply_access::<T, _>(acc, *derefs, *write); format!("some {}", old.unwrap_or(-999)) }
                            None => "none".into(),
                        }
                        }
                    })
                }
                Op::Ins(k, h, v) => {
                    if !is_reg(ctx, *k) { return "nostore".into(); }
                    let e = match resolve(ctx, *h) { Some(e) => e, None => return "skip".into() };
                    with_kind!(*k, T => {
                        let mut st = world.write_storage::<T>();
                        let mut r = &mut st;
                        let res = if *h % 2 == 1 { GenericWriteStorage::insert(&mut r, e, T::new(*v)) } else { GenericWriteStorage::insert(&mut st, e, T::new(*v)) };
                        match res {
                            Ok(None) => "ins".into(),
                            Ok(Some(old)) => { let s = format!("rep {}", old.val()); log_pause(|| drop(old)); s }
                            Err(_) => "err".into(),
                        }
                    })
                }
                Op::Rem(k, h) => {
                    if !is_reg(ctx, *k) { return "nostore".into(); }
                    let e = match resolve(ctx, *h) { Some(e) => e, None => return "skip".into() };
                    with_kind!(*k, T => {
                        let mut st = world.write_storage::<T>();
                        let old = st.get(e).map(|c| c.val());
                        if *h % 2 == 1 { let mut r = &mut st; log_pause(|| GenericWriteStorage::remove(&mut r, e)); }
                        else { log_pause(|| GenericWriteStorage::remove(&mut st, e)); }
                        match old { Some(v) => format!("some {}", v), None => "none".into() }
                    })
                }
                other => exec_inner(world, ctx, other),
            }
        }
        Op::Lend(inner) => {
            match &**inner {
                Op::Get(k, h) => {
                    if !is_reg(ctx, *k) { return "nostore".into(); }
                    let e = match resolve(ctx, *h) { Some(e) => e, None => return "skip".into() };
                    with_kind!(*k, T => {
                        let st = world.read_storage::<T>();
                        let ents = world.entities();
                        let mut it = (&st).lend_join();
                        opt_val(it.get(e, &ents))
                    })
                }
                Op::GetMut { k, h, derefs, write } => {
                    if !is_reg(ctx, *k) { return "nostore".into(); }
                    let e = match resolve(ctx, *h) { Some(e) => e, None => return "skip".into() };
                    with_kind!(*k, T => {
                        let mut st = world.write_storage::<T>();
                        let ents = world.entities();
                        let old = st.get(e).map(|c| c.val());
                        let mut it = (&mut st).lend_join();
                        match it.get(e, &ents) {
                            Some(acc) => { apply_access::<T, _>(acc, *derefs, *write); format!("some {}", old.unwrap_or(-999)) }
                            None => "none".into(),
                        }
                    })
                }
                other => exec_inner(world, ctx, other),
            }
        }
        Op::LazyPanic => {
            world.read_resource::<LazyUpdate>().exec(|_| panic!("verif: lazy action panics"));
            "ok".into()
        }
        Op::LazyProbe => {
            let flag = Arc::new(std::sync::atomic::AtomicBool::new(false));
            let f2 = flag.clone();
            world.read_resource::<LazyUpdate>().exec(move |_| f2.store(true, std::sync::atomic::Ordering::SeqCst));
            let r = catch_unwind(AssertUnwindSafe(|| world.maintain()));
            if r.is_err() { "panic".into() } else if flag.load(std::sync::atomic::Ordering::SeqCst) { "ran".into() } else { "notrun".into() }
        }
        Op::LendDrain2(k, h) => {
            if !is_reg(ctx, *k) { return "nostore".into(); }
            let e = match resolve(ctx, *h) { Some(e) => e, None => return "skip".into() };
            with_kind!(*k, T => {
                let mut st = world.write_storage::<T>();
                let ents = world.entities();
                let mut it = st.drain().lend_join();
                let show = |c: Option<T>| match c {
                    Some(old) => { let s = format!("some {}", old.val()); log_pause(|| drop(old)); s }
                    None => "none".to_string(),
                };
                let first = show(it.get(e, &ents));
                let second = match catch_unwind(AssertUnwindSafe(|| it.get(e, &ents))) {
                    Ok(c) => show(c),
                    Err(_) => "panic".to_string(),
                };
                format!("{} / {}", first, second)
            })
        }
        Op::LendEntry2(k, h, v) => {
            if !is_reg(ctx, *k) { return "nostore".into(); }
            let e = match resolve(ctx, *h) { Some(e) => e, None => return "skip".into() };
            with_kind!(*k, T => {
                let mut st = world.write_storage::<T>();
                let ents = world.entities();
                let old = st.get(e).map(|c| c.val());
                let mut it = st.entries().lend_join();
                let first = match it.get(e, &ents) {
                    None => "err".to_string(),
                    Some(entry) => {
                        let occ = matches!(entry, StorageEntry::Occupied(_));
                        let _ = entry.or_insert(T::new(*v));
                        if occ { format!("occ {}", old.unwrap_or(-999)) } else { "vac".into() }
                    }
                };
                let second = match it.get(e, &ents) {
                    None => "none".to_string(),
                    Some(StorageEntry::Occupied(o)) => format!("occ {}", o.get().val()),
                    Some(StorageEntry::Vacant(_)) => "vac".to_string(),
                };
                format!("{} / {}", first, second)
            })
        }
        Op::LazyFlag => {
            FLAGS_Q.with(|c| c.set(c.get() + 1));
            world.read_resource::<LazyUpdate>().exec(|_| FLAGS_RAN.with(|c| c.set(c.get() + 1)));
            "ok".into()
        }
        Op::LazyFlagCheck => format!("q {} ran {}", FLAGS_Q.with(|c| c.get()), FLAGS_RAN.with(|c| c.get())),
        Op::EntryFar(k, v) => {
            if !is_reg(ctx, *k) { return "nostore".into(); }
            if ![0usize, 3, 4, 6, 8].contains(k) { return "skip".into(); }
            with_kind!(*k, T => {
                let mut st = world.write_storage::<T>();
                let r = catch_unwind(AssertUnwindSafe(|| { let _ = st.entry_inner((1u32 << 24) + 1).or_insert(T::new(*v)); }));
                if r.is_ok() { "ok".into() } else { "panic".into() }
            })
        }
        Op::Dump => {
            // full observable content of every registered storage: `k [ i=v … ]`
            let regs: Vec<usize> = { let c = ctx.lock().unwrap(); (0..NUM_KINDS).filter(|k| c.registered[*k]).collect() };
            let mut out = String::from("dump");
            for k in regs {
                with_kind!(k, T => {
                    let st = world.read_storage::<T>();
                    write!(out, " {} [", k).unwrap();
                    for i in mask_ids(&st) {
                        // SAFETY-relevant: reading through the mask is exactly what C19 says stays valid
                        let v = unsafe { specs::storage::UnprotectedStorage::<T>::get(st.unprotected_storage(), i) }.val();
                        write!(out, " {}={}", i, v).unwrap();
                    }
                    out.push_str(" ]");
                });
            }
            out
        }
    }
}

fn mask_ids_w<T: Comp>(s: &WriteStorage<T>) -> Vec<u32> {
    use specs::hibitset::BitSetLike;
    s.mask().iter().collect()
}

impl Exec {
    pub fn new() -> Self {
        let mut c = Ctx::default();
        for _ in 0..NUM_KINDS { c.readers.push(None); }
        zst_reset();
        Exec { world: Some(World::new()), ctx: Arc::new(Mutex::new(c)), pending_fault: None, faulted: false }
    }

    /// Executes one top-level op; returns result tokens, the nested transcript lines it produced
    /// and the values destroyed during it (sorted).
    pub fn exec(&mut self, op: &Op) -> (String, Vec<String>, Vec<i64>) {
        if let Op::Fault(n) = op {
            self.faulted = true;
            self.pending_fault = Some(*n);
            return ("ok".into(), Vec::new(), Vec::new());
        }
        log_on();
        if !matches!(op, Op::Dump) {
            set_panic_at(self.pending_fault.take());
        }
        let res = if let Op::DropWorld = op {
            match self.world.take() {
                Some(w) => {
                    let r = catch_unwind(AssertUnwindSafe(|| drop(w)));
                    self.ctx.lock().unwrap().readers.iter_mut().for_each(|r| *r = None);
                    let (made, gone) = zst_counts();
                    if !r.is_ok() { "panic".to_string() }
                    else if made != gone && !self.faulted { format!("dropped zst_made={} zst_dropped={}", made, gone) }
                    else { "dropped".to_string() }
                }
                None => "skip".to_string(),
            }
        } else {
            match self.world.as_mut() {
                Some(w) => exec_op(w, &self.ctx, op),
                None => "skip".to_string(),
            }
        };
        set_panic_at(None);
        let mut d = log_off();
        d.sort();
        let sub = std::mem::take(&mut self.ctx.lock().unwrap().sub);
        (res, sub, d)
    }
}

pub fn is_mutating(op: &Op) -> bool {
    !matches!(op, Op::Alive(_) | Op::WAlive(_) | Op::EJoin | Op::EJoinPar | Op::Get(..) | Op::Has(..) | Op::Count(_) | Op::Empty(_) | Op::Mask(_) | Op::Slice(_) | Op::Events(_) | Op::Fault(_) | Op::Dump | Op::LazyFlag | Op::LazyFlagCheck)
}

#[derive(Clone, Copy)]
pub struct RunCfg {
    pub probe_entities: bool, // alive @k for logged handles + ejoin after each mutating op
    pub probe_stores: bool,   // mask/events of every registered kind after each mutating op
    pub ledger: bool,         // print ` ! d v v …` (values destroyed during the op)
}

fn emit_line(out: &mut String, op: &Op, r: &(String, Vec<String>, Vec<i64>), ledger: bool) {
    write!(out, "{} => {}", show_op(op), r.0).unwrap();
    if ledger {
        out.push_str(" ! d");
        for v in &r.2 { write!(out, " {}", v).unwrap(); }
    }
    out.push('\n');
    for l in &r.1 { out.push_str(l); out.push('\n'); }
}

/// `VH_EAGER=1`: every top-level op is written to stdout BEFORE it is executed, so that the transcript of a process
/// that dies inside an op (abort, segmentation fault) ends with the script that killed it.
fn eager() -> bool {
    static E: std::sync::OnceLock<bool> = std::sync::OnceLock::new();
    *E.get_or_init(|| std::env::var("VH_EAGER").map(|v| v == "1").unwrap_or(false))
}

pub fn run_script(ops: &[Op], cfg: RunCfg, rng: &mut Rng, out: &mut String) {
    let mut ex = Exec::new();
    for op in ops {
        if eager() {
            use std::io::Write as _;
            let so = std::io::stdout();
            let mut l = so.lock();
            l.write_all(out.as_bytes()).unwrap();
            out.clear();
            writeln!(l, "# next: {}", show_op(op)).unwrap();
            l.flush().unwrap();
        }
        let r = ex.exec(op);
        emit_line(out, op, &r, cfg.ledger);
        if is_mutating(op) && ex.world.is_some() && r.0 != "panic" {
            if cfg.probe_entities {
                let n = ex.ctx.lock().unwrap().log.len();
                let ks: Vec<usize> = if n <= 12 { (0..n).collect() } else {
                    let mut v: Vec<usize> = (0..6).map(|_| rng.below(n as u64) as usize).collect();
                    v.extend((n - 4)..n);
                    v
                };
                for k in ks { let q = Op::Alive(k); let r = ex.exec(&q); emit_line(out, &q, &r, false); }
                let q = Op::EJoin; let r = ex.exec(&q); emit_line(out, &q, &r, false);
                if n % 3 == 0 { let q = Op::EJoinPar; let r = ex.exec(&q); emit_line(out, &q, &r, false); }
            }
            if cfg.probe_stores {
                let regs: Vec<usize> = { let c = ex.ctx.lock().unwrap(); (0..NUM_KINDS).filter(|k| c.registered[*k]).collect() };
                for k in regs {
                    let q = Op::Mask(k); let r = ex.exec(&q); emit_line(out, &q, &r, false);
                    let tracked = k >= 6;
                    if tracked { let q = Op::Events(k); let r = ex.exec(&q); emit_line(out, &q, &r, false); }
                }
            }
        }
    }
}

// ------------------------------------------------------------------------------------------
// Generators

/// Random entity-op history; weights tilted toward create → delete → reuse cycles.
pub fn gen_script(rng: &mut Rng, len: usize) -> Vec<Op> {
    let mut ops = Vec::with_capacity(len);
    let mut nlog: usize = 0;
    let w_maint = *rng.pick(&[2u32, 6, 12]);
    let w_batch = *rng.pick(&[2u32, 6]);
    for _ in 0..len {
        let ws = [10, 2, 8, 2, 2, 2, 10, w_batch, 8, 1, w_maint, 2];
        let op = match rng.weighted(&ws) {
            0 => { nlog += 1; Op::Create { atomic: false, dropped: false } }
            1 => { nlog += 1; Op::Create { atomic: false, dropped: true } }
            2 => { nlog += 1; Op::Create { atomic: true, dropped: false } }
            3 => { nlog += 1; Op::Create { atomic: true, dropped: true } }
            4 => { let n = rng.range(0, 4) as usize; nlog += n; Op::CreateIter { atomic: false, n } }
            5 => { let n = rng.range(0, 5) as usize; nlog += n; Op::CreateIter { atomic: true, n } }
            6 => Op::DelNow(pick_slot(rng, nlog)),
            7 => {
                Op::DelBatch(gen_batch(rng, nlog, 6))
            }
            8 => Op::DelAtomic(pick_slot(rng, nlog)),
            9 => Op::DelAll,
            10 => Op::Maintain,
            _ => Op::WAlive(pick_slot(rng, nlog)),
        };
        ops.push(op);
    }
    ops
}

fn pick_slot(rng: &mut Rng, nlog: usize) -> usize {
    if nlog == 0 { 0 }
    else if rng.chance(1, 2) { nlog - 1 - rng.below(nlog.min(4) as u64) as usize }
    else { rng.below(nlog as u64) as usize }
}

/// Which kinds a storage history uses.
#[derive(Clone)]
pub struct StoreProfile {
    pub kinds: Vec<usize>,
    pub lazy: bool,
    pub rjoin: bool,
    pub emit_toggle: bool,
    pub clear: bool,
    pub far_apart: bool,
    pub drop_world: bool,
    pub faults: bool,
    pub churn: bool,
}

fn gen_comps(rng: &mut Rng, kinds: &[usize], val: &mut i64) -> Vec<(usize, i64)> {
    let mut cs = Vec::new();
    for &k in kinds {
        if rng.chance(1, 2) { *val += 1; cs.push((k, if is_null_kind(k) { 0 } else { *val })); }
    }
    cs
}

fn gen_dw(rng: &mut Rng, val: &mut i64, null: bool) -> (u32, Option<i64>) {
    let derefs = rng.below(3) as u32;
    let write = if derefs >= 1 && rng.chance(2, 3) { *val += 1; Some(if null { 0 } else { *val }) } else { None };
    (derefs, write)
}

fn gen_simple_store_op(rng: &mut Rng, p: &StoreProfile, nlog: &mut usize, val: &mut i64, depth: u32) -> Op {
    let k = *rng.pick(&p.kinds);
    let null = is_null_kind(k);
    let mut nv = |val: &mut i64| { *val += 1; if null { 0 } else { *val } };
    let h = pick_slot(rng, *nlog);
    let ws: [u32; 31] = [
        8, 6, 3, 10, 6, 4, 6, 3, 3, 3, // createw now, createw atomic, has, ins, rem, get, getmut, entry_or, entry_rep, entry_rem
        3, 1, 1, 1, if p.clear { 1 } else { 0 }, 2, 2, // mut_or_default, count, empty, mask, clear, drain, slice
        if p.emit_toggle { 3 } else { 0 }, 2, // emit, events
        6, 4, 2, 4, // del_now, del_atomic, del_batch, maintain
        if p.lazy { 3 } else { 0 }, if p.lazy { 1 } else { 0 }, if p.lazy { 2 } else { 0 }, if p.lazy { 2 } else { 0 }, if p.lazy && depth < 2 { 2 } else { 0 }, // lazy_ins, lazy_ins_all, lazy_rem, lazy_create, lazy_exec
        if p.rjoin { if p.emit_toggle { 9 } else { 3 } } else { 0 }, 1, 1, // rjoin, del_all, create_iter
    ];
    let churn_ws: [u32; 31] = [
        if *nlog < 5 { 6 } else { 1 }, if *nlog < 5 { 2 } else { 0 }, 2, 14, 12, 8, 4, 4, 4, 6,
        3, 1, 1, 1, 5, 4, 3,
        0, 1,
        2, 1, 1, 2,
        0, 0, 0, 0, 0,
        if p.rjoin { 2 } else { 0 }, 0, 0,
    ];
    let ws = if p.churn { churn_ws } else { ws };
    let op = gen_store_op_inner(rng, &ws, p, k, h, null, val, nlog, depth);
    // a fifth of the plain lookups / accesses / insertions / removals go through the generic storage traits
    if matches!(op, Op::Get(..) | Op::GetMut { .. } | Op::Ins(..) | Op::Rem(..)) && rng.chance(1, 5) {
        return Op::Generic(Box::new(op));
    }
    // ... a fifth of the `or_insert` entries as the first of two look-ups through `entries().lend_join()`
    if let Op::Entry(k, h, EntryOp::OrInsert { v, .. }) = op { if rng.chance(1, 5) { return Op::LendEntry2(k, h, v); } }
    // ... a quarter of the remaining removals as the first of two look-ups of a draining lending join
    if let Op::Rem(k, h) = op { if rng.chance(1, 4) { return Op::LendDrain2(k, h); } }
    // ... and a sixth of the remaining look-ups through a lending join of the storage (`JoinLendIter::get`)
    if matches!(op, Op::Get(..) | Op::GetMut { .. }) && rng.chance(1, 6) {
        return Op::Lend(Box::new(op));
    }
    op
}

#[allow(clippy::too_many_arguments)]
fn gen_store_op_inner(rng: &mut Rng, ws: &[u32; 31], p: &StoreProfile, k: usize, h: usize, null: bool, val: &mut i64, nlog: &mut usize, depth: u32) -> Op {
    let mut nv = |val: &mut i64| { *val += 1; if null { 0 } else { *val } };
    match rng.weighted(ws) {
        0 => { *nlog += 1; Op::CreateW { atomic: false, dropped: rng.chance(1, 8), comps: gen_comps(rng, &p.kinds, val) } }
        1 => { *nlog += 1; Op::CreateW { atomic: true, dropped: rng.chance(1, 8), comps: gen_comps(rng, &p.kinds, val) } }
        2 => Op::Has(k, h),
        3 => Op::Ins(k, h, nv(val)),
        4 => Op::Rem(k, h),
        5 => Op::Get(k, h),
        6 => { let (derefs, write) = gen_dw(rng, val, null); Op::GetMut { k, h, derefs, write } }
        7 => { let v = nv(val); let (derefs, write) = gen_dw(rng, val, null); Op::Entry(k, h, EntryOp::OrInsert { v, derefs, write }) }
        8 => Op::Entry(k, h, EntryOp::Replace(nv(val))),
        9 => Op::Entry(k, h, EntryOp::Remove),
        10 => { let (derefs, write) = gen_dw(rng, val, null); Op::MutOrDefault { k, h, derefs, write } }
        11 => Op::Count(k),
        12 => Op::Empty(k),
        13 => Op::Mask(k),
        14 => Op::Clear(k),
        15 => Op::Drain(k, rng.below(4) as usize),
        16 => Op::Slice(k),
        17 => Op::Emit(k, rng.chance(1, 2)),
        18 => Op::Events(k),
        19 => Op::DelNow(h),
        20 => Op::DelAtomic(h),
        21 => Op::DelBatch(gen_batch(rng, *nlog, 5)),
        22 => Op::Maintain,
        23 => Op::LazyIns(k, h, nv(val)),
        24 => { let n = rng.range(1, 3) as usize; Op::LazyInsAll(k, (0..n).map(|_| { *val += 1; (pick_slot(rng, *nlog), if null { 0 } else { *val }) }).collect()) }
        25 => Op::LazyRem(k, h),
        26 => { *nlog += 1; let cs = gen_comps(rng, &p.kinds, val); if rng.chance(1, 4) { Op::LazyCreateNoBuild(cs) } else { Op::LazyCreate(cs) } }
        27 => {
            let n = rng.range(1, 4) as usize;
            let mut script = Vec::new();
            for _ in 0..n {
                let mut o = gen_simple_store_op(rng, p, nlog, val, depth + 1);
                if matches!(o, Op::Maintain | Op::DropWorld) { o = Op::EJoin; }
                script.push(o);
            }
            Op::LazyExec(script)
        }
        28 => {
            let n = rng.range(1, 6) as usize;
            let mutable = rng.chance(2, 3);
            let shared = mutable && rng.chance(2, 5);
            let acts = (0..n).map(|_| match if shared { rng.below(3) } else { rng.below(5) } {
                0 => RAct::Skip,
                1 => RAct::Get,
                2 => { let (derefs, write) = gen_dw(rng, val, null); RAct::GetMut { derefs, write } }
                3 => RAct::GetOther(if rng.chance(1, 2) { rng.below((*nlog).max(1) as u64) as usize } else { pick_slot(rng, *nlog) }),
                _ => { let (derefs, write) = gen_dw(rng, val, null); RAct::GetOtherMut { h: if rng.chance(1, 2) { rng.below((*nlog).max(1) as u64) as usize } else { pick_slot(rng, *nlog) }, derefs, write } }
            }).collect();
            Op::RJoin { k, mutable, shared, acts }
        }
        29 => Op::DelAll,
        _ => { let n = rng.range(1, 5) as usize; *nlog += n; Op::CreateIter { atomic: rng.chance(1, 2), n } }
    }
}

/// A deletion batch: handles drawn from the log, with repetitions ANYWHERE (a repeated handle before a dead one is
/// what makes a failing batch interesting), sometimes an old (probably dead) handle towards the end.
fn gen_batch(rng: &mut Rng, nlog: usize, max: u64) -> Vec<usize> {
    let n = rng.range(0, max) as usize;
    let mut hs: Vec<usize> = Vec::new();
    let mut repeated = false;
    for i in 0..n {
        if i >= 1 && rng.chance(1, 4) { let j = rng.below(i as u64) as usize; let h = hs[j]; hs.push(h); repeated = true; }
        else if i >= 2 && rng.chance(if repeated { 1 } else { 1 }, if repeated { 2 } else { 5 }) { hs.push(rng.below(nlog.max(1) as u64) as usize); }
        else { hs.push(pick_slot(rng, nlog)); }
    }
    hs
}

/// Random history over storages: registration (by random paths, sometimes late), then ops.
pub fn gen_store_script(rng: &mut Rng, len: usize, p: &StoreProfile) -> Vec<Op> {
    let mut ops = Vec::new();
    let mut nlog = 0usize;
    let mut val = 0i64;
    let mut late: Vec<usize> = Vec::new();
    for &k in &p.kinds {
        if rng.chance(1, 6) { late.push(k); } else { ops.push(Op::Reg(k, rng.below(4) as u8)); }
    }
    if p.far_apart {
        // occupy far-apart indices: create many, keep a few (63, 64, 4095, 4096, …), delete none
        let n = *rng.pick(&[70usize, 70, 70, 70, 70, 70, 70, 4100]);
        ops.push(Op::CreateIter { atomic: false, n });
        nlog += n;
    }
    let mut p2 = p.clone();
    for i in 0..len {
        if !late.is_empty() && i == len / 3 {
            for k in late.drain(..) { ops.push(Op::Reg(k, rng.below(4) as u8)); }
        }
        p2.kinds = p.kinds.iter().cloned().filter(|k| !late.contains(k)).collect();
        if p2.kinds.is_empty() { p2.kinds = p.kinds.clone(); }
        let mut op = gen_simple_store_op(rng, &p2, &mut nlog, &mut val, 0);
        if p.far_apart {
            // redirect handle slots to boundary-straddling handles most of the time
            let b = [0usize, 62, 63, 64, 65, 4094, 4095, 4096, 4097];
            let pick = |rng: &mut Rng| { let x = *rng.pick(&b); if x < nlog { x } else { x % nlog.max(1) } };
            if rng.chance(3, 4) {
                op = match op {
                    Op::Ins(k, _, v) => Op::Ins(k, pick(rng), v),
                    Op::Rem(k, _) => Op::Rem(k, pick(rng)),
                    Op::Get(k, _) => Op::Get(k, pick(rng)),
                    Op::Has(k, _) => Op::Has(k, pick(rng)),
                    Op::DelNow(_) => Op::DelNow(pick(rng)),
                    Op::Entry(k, _, e) => Op::Entry(k, pick(rng), e),
                    Op::GetMut { k, derefs, write, .. } => Op::GetMut { k, h: pick(rng), derefs, write },
                    o => o,
                };
            }
        }
        if p.faults {
            let destroying = matches!(op, Op::Ins(..) | Op::Entry(_, _, EntryOp::OrInsert { .. }) | Op::DelNow(_) | Op::DelBatch(_) | Op::DelAll | Op::Clear(_) | Op::Maintain);
            if destroying && rng.chance(1, if p.churn { 8 } else { 3 }) {
                // a maintain whose purge may panic, with a (harmless) lazy action queued in the same frame
                let flagged = matches!(op, Op::Maintain) && rng.chance(1, 2);
                if flagged { ops.push(Op::LazyFlag); }
                ops.push(Op::Fault(rng.below(4)));
                ops.push(op);
                ops.push(Op::Dump);
                if flagged { ops.push(Op::LazyFlagCheck); ops.push(Op::Maintain); ops.push(Op::LazyFlagCheck); }
                // every other time an insertion performed WHILE a destructor panic unwinds (scope guard), mostly for an
                // entity whose storage slot is free. (Own generator state: the rest of the script stays what it was.)
                if !p.kinds.is_empty() && nlog > 0 && (val + i as i64) % 2 == 0 {
                    let mut r2 = Rng::new((val as u64).wrapping_mul(131).wrapping_add(i as u64));
                    for j in 0..r2.range(1, 3) {
                        let k = *r2.pick(&p.kinds);
                        let h = if r2.chance(1, 4) { pick_slot(&mut r2, nlog) } else { nlog - 1 - r2.below(nlog.min(4) as u64) as usize };
                        // values of their own range: the counter `val` (and with it the rest of the script) is left alone
                        let v = 1_000_000 + 4 * i as i64 + j as i64;
                        ops.push(Op::Unwinding(Box::new(Op::Ins(k, h, if is_null_kind(k) { 0 } else { v }))));
                    }
                    ops.push(Op::Dump);
                }
                continue;
            }
        }
        // the same non-lending restricted join again in the next "frame" (nothing in between but, at most, the readers
        // being drained): the item fetched mutably last is fetched mutably first. (No draw from `rng`: the rest of the
        // script stays what it was.)
        let again = match &op {
            Op::RJoin { k, mutable: true, shared: true, acts } if acts.len() % 2 == 1 || val % 3 == 0 =>
                acts.iter().rposition(|a| matches!(a, RAct::GetMut { .. })).map(|j| {
                    let mut a2: Vec<RAct> = vec![RAct::Skip; j];
                    a2.push(acts[j].clone());
                    (*k, Op::RJoin { k: *k, mutable: true, shared: true, acts: a2 })
                }),
            _ => None,
        };
        ops.push(op);
        if let Some((k, o2)) = again {
            if val % 2 == 0 { ops.push(Op::Events(k)); }
            ops.push(o2.clone());
            ops.push(Op::Events(k));
            ops.push(o2);
            ops.push(Op::Events(k));
        }
    }
    if p.lazy && !p.faults && !p.kinds.is_empty() && nlog > 0 && val % 7 == 3 {
        // a busy frame: 65–140 queued insertions and removals on two or three entities (the order decides what is left),
        // all of them run by ONE maintain. (Own generator state: the rest of the script stays what it was.)
        let mut r2 = Rng::new((val as u64).wrapping_mul(31).wrapping_add(nlog as u64));
        let n = r2.range(65, 140) as usize;
        let k = *r2.pick(&p.kinds);
        let hs: Vec<usize> = (0..r2.range(2, 3)).map(|_| pick_slot(&mut r2, nlog)).collect();
        for _ in 0..n {
            let h = *r2.pick(&hs);
            if r2.chance(3, 5) { val += 1; ops.push(Op::LazyIns(k, h, if is_null_kind(k) { 0 } else { val })); }
            else { ops.push(Op::LazyRem(k, h)); }
        }
        ops.push(Op::Maintain);
        for &h in &hs { ops.push(Op::Get(k, h)); }
    }
    if p.far_apart && !p.faults && rng.chance(1, 3) {
        // `delete_all` over a population whose low indices have been thinned out (few entities below 64, many above):
        // the order in which it retires the entities shows in the events of tracked storages and in the handles of the
        // creations that follow (free list)
        let keep_low = rng.range(1, 6) as usize;
        let victims: Vec<usize> = (keep_low..60.min(nlog)).collect();
        if victims.len() >= 8 {
            for chunk in victims.chunks(16) { ops.push(Op::DelBatch(chunk.to_vec())); }
            if rng.chance(1, 2) { ops.push(Op::Maintain); }
            for &k in &p.kinds { if k >= 6 { ops.push(Op::Events(k)); } }
            ops.push(Op::DelAll);
            for &k in &p.kinds { if k >= 6 { ops.push(Op::Events(k)); } }
            ops.push(Op::CreateIter { atomic: false, n: 12 });
            nlog += 12;
        }
    }
    if p.lazy && !p.faults && rng.chance(1, 10) {
        // a long chain of lazily queued scripts, each of which queues the next one (40–70 links): all of them run, in
        // order, inside ONE maintain
        let depth = rng.range(40, 70) as usize;
        let k = *rng.pick(&p.kinds);
        let mut script: Vec<Op> = vec![Op::Has(k, pick_slot(rng, nlog))];
        for d in 0..depth {
            let mut outer: Vec<Op> = Vec::new();
            if d % 7 == 0 { val += 1; outer.push(Op::LazyIns(k, pick_slot(rng, nlog), if is_null_kind(k) { 0 } else { val })); }
            else { outer.push(Op::Has(k, pick_slot(rng, nlog))); }
            outer.push(Op::LazyExec(script));
            script = outer;
        }
        ops.push(Op::LazyExec(script));
        ops.push(Op::Maintain);
    }
    if p.lazy && !p.faults && !p.drop_world && rng.chance(1, 12) {
        // a panicking lazy action ends the case (nothing after the final maintain is compared)
        ops.push(Op::LazyPanic);
        ops.push(Op::Maintain);
        ops.push(Op::LazyProbe);
        return ops;
    }
    if p.drop_world {
        if !p.faults && rng.chance(1, 6) {
            let cands: Vec<usize> = p.kinds.iter().cloned().filter(|k| [0usize, 3, 4, 6, 8].contains(k)).collect();
            if !cands.is_empty() { val += 1; ops.push(Op::EntryFar(*rng.pick(&cands), val)); }
        }
        if p.faults && rng.chance(1, 2) { ops.push(Op::Fault(rng.below(6))); }
        ops.push(Op::DropWorld);
    }
    ops
}

pub fn random_profile(rng: &mut Rng, focus: &str) -> StoreProfile {
    let all: Vec<usize> = (0..NUM_KINDS).collect();
    let tracked: Vec<usize> = (6..NUM_KINDS).collect();
    let nk = rng.range(1, 3) as usize;
    let pool: &Vec<usize> = if focus == "tracked" { &tracked } else { &all };
    let mut kinds: Vec<usize> = Vec::new();
    while kinds.len() < nk { let k = *rng.pick(pool); if !kinds.contains(&k) { kinds.push(k); } }
    if focus == "many" { kinds = all.clone(); }
    if focus == "churn" || focus == "faultchurn" { kinds = vec![if rng.chance(3, 5) { *rng.pick(&[1usize, 7, 10]) } else { rng.below(NUM_KINDS as u64) as usize }]; }
    StoreProfile {
        kinds,
        lazy: focus != "fault" && focus != "churn" && focus != "faultchurn" && (focus == "lazy" || rng.chance(1, 3)),
        rjoin: focus == "rjoin" || (focus == "tracked" && rng.chance(1, 2)) || (focus != "fault" && focus != "faultchurn" && rng.chance(1, 4)),
        emit_toggle: focus == "tracked" && rng.chance(1, 2) && !NO_EVENT_CONTROL,
        clear: focus == "churn" || focus == "faultchurn" || (focus != "tracked" && rng.chance(1, 2)),
        far_apart: focus == "far" || rng.chance(1, 30),
        drop_world: focus == "ledger" || focus == "fault" || focus == "faultchurn" || rng.chance(1, 4),
        faults: focus == "fault" || focus == "faultchurn",
        churn: focus == "churn" || focus == "faultchurn",
    }
}

/// The alphabet of the bounded-exhaustive generator (slots are taken modulo the log size).
pub fn exhaustive_alphabet() -> Vec<Op> {
    vec![
        Op::Create { atomic: false, dropped: false },
        Op::Create { atomic: false, dropped: true },
        Op::Create { atomic: true, dropped: false },
        Op::Create { atomic: true, dropped: true },
        Op::DelNow(0),
        Op::DelNow(1),
        Op::DelAtomic(0),
        Op::DelAtomic(1),
        Op::DelBatch(vec![0, 0]),
        Op::DelBatch(vec![1, 0]),
        Op::DelBatch(vec![0, 1, 2]),
        Op::DelBatch(vec![1, 1, 0]),
        Op::DelAll,
        Op::Maintain,
        Op::CreateIter { atomic: true, n: 2 },
        Op::CreateIter { atomic: true, n: 3 },
    ]
}

/// Store alphabet for bounded-exhaustive storage histories on kind `k` (two entities).
pub fn store_alphabet(k: usize) -> Vec<Op> {
    // the zero-sized component of the null storage (kind 5) has the single value 0
    let z = |v: i64| if is_null_kind(k) { 0 } else { v };
    vec![
        Op::CreateW { atomic: false, dropped: false, comps: vec![(k, z(7))] },
        Op::CreateW { atomic: true, dropped: false, comps: vec![] },
        Op::Ins(k, 0, z(1)),
        Op::Ins(k, 1, z(2)),
        Op::Rem(k, 0),
        Op::Rem(k, 1),
        Op::GetMut { k, h: 0, derefs: 1, write: Some(z(3)) },
        Op::Entry(k, 1, EntryOp::OrInsert { v: z(4), derefs: 0, write: None }),
        Op::Entry(k, 0, EntryOp::Remove),
        Op::DelNow(0),
        Op::DelAtomic(1),
        Op::Maintain,
        Op::Drain(k, 1),
        Op::Clear(k),
        Op::LazyIns(k, 0, z(5)),
        Op::LazyRem(k, 1),
    ]
}
