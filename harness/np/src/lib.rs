//! The PRNG and the world-domain executor of the main harness (shared source files), built against specs WITHOUT its
//! default features (no `parallel`, no `storage-event-control`).
#[path = "../../src/rng.rs"]
pub mod rng;
#[path = "../../src/world_dom.rs"]
pub mod world_dom;
