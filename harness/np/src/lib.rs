//! Only the PRNG of the main harness (shared source file).
#[path = "../../src/rng.rs"]
pub mod rng;
