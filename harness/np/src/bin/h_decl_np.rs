//! h_decl_np: the declaration / borrow table of h_dispatch (its `table` case), built against specs WITHOUT the
//! default `parallel` feature (harness/np). What a system-data handle declares must be what its fetch borrows in
//! every feature configuration (C11, last clause). Same line protocol as h_dispatch.
use specs::prelude::*;
use specs::shred::{Resource, ResourceId, SystemData as ShredSystemData};
use specs::storage::MaskedStorage;
use specs::world::EntitiesRes;
use std::panic::{catch_unwind, AssertUnwindSafe};


#[derive(Default, Clone, Copy)]
pub struct CA(u32);
#[derive(Default, Clone, Copy)]
pub struct CB(u32);
#[derive(Default, Clone, Copy)]
pub struct CC(u32);
impl Component for CA { type Storage = VecStorage<Self>; }
impl Component for CB { type Storage = DenseVecStorage<Self>; }
impl Component for CC { type Storage = HashMapStorage<Self>; }
/// Zero-sized flag component (declaration table only: resource 5).
#[derive(Default, Clone, Copy)]
pub struct CZ;
impl Component for CZ { type Storage = NullStorage<Self>; }

fn res_num(id: &ResourceId) -> u32 {
    if *id == ResourceId::new::<EntitiesRes>() { 0 }
    else if *id == ResourceId::new::<LazyUpdate>() { 1 }
    else if *id == ResourceId::new::<MaskedStorage<CA>>() { 2 }
    else if *id == ResourceId::new::<MaskedStorage<CB>>() { 3 }
    else if *id == ResourceId::new::<MaskedStorage<CC>>() { 4 }
    else if *id == ResourceId::new::<MaskedStorage<CZ>>() { 5 }
    else if *id == ResourceId::new::<CA>() { 902 }
    else if *id == ResourceId::new::<CB>() { 903 }
    else if *id == ResourceId::new::<CC>() { 904 }
    else { 999 }
}

fn show_ids(v: &[ResourceId]) -> String {
    if v.is_empty() { "-".into() } else { v.iter().map(|r| res_num(r).to_string()).collect::<Vec<_>>().join(",") }
}

fn new_world() -> World {
    let mut w = World::new();
    w.register::<CA>();
    w.register::<CB>();
    w.register::<CC>();
    w.register::<CZ>();
    for i in 0..6u32 {
        let mut b = w.create_entity();
        if i % 2 == 0 { b = b.with(CA(i)); }
        if i % 3 == 0 { b = b.with(CB(i)); }
        if i % 4 == 0 { b = b.with(CC(i)); }
        b.build();
    }
    w
}

/// Borrow state of resource `R`: n = not borrowed, s = shared, x = exclusive.
fn probe<R: Resource>(w: &World) -> char {
    if !w.has_value::<R>() { return 'n'; }
    let free = catch_unwind(AssertUnwindSafe(|| { let g = w.try_fetch_mut::<R>(); g.is_some() }));
    if let Ok(true) = free { return 'n'; }
    if let Ok(false) = free { return '?'; }
    let sh = catch_unwind(AssertUnwindSafe(|| { let g = w.try_fetch::<R>(); g.is_some() }));
    if sh.is_ok() { 's' } else { 'x' }
}

fn borrow_state(w: &World) -> String {
    let st = [probe::<EntitiesRes>(w), probe::<LazyUpdate>(w), probe::<MaskedStorage<CA>>(w),
              probe::<MaskedStorage<CB>>(w), probe::<MaskedStorage<CC>>(w), probe::<MaskedStorage<CZ>>(w)];
    let v: Vec<String> = st.iter().enumerate().filter(|(_, c)| **c != 'n').map(|(i, c)| format!("{}:{}", i, c)).collect();
    if v.is_empty() { "-".into() } else { v.join(",") }
}

fn decl_line<'a, D: ShredSystemData<'a>>(w: &'a World) -> String {
    let before = borrow_state(w);
    let r = catch_unwind(AssertUnwindSafe(|| {
        let d = D::fetch(w);
        let s = borrow_state(w);
        drop(d);
        s
    }));
    let after = borrow_state(w);
    match r {
        Ok(s) if before == "-" && after == "-" =>
            format!("reads={} writes={} borrows={}", show_ids(&D::reads()), show_ids(&D::writes()), s),
        Ok(s) => format!("reads={} writes={} borrows={} leaked={}/{}", show_ids(&D::reads()), show_ids(&D::writes()), s, before, after),
        Err(_) => "panic".into(),
    }
}

/// One table line: a FRESH world in which only this handle's own `SystemData::setup` has run (what a dispatcher's
/// `setup` does for a system using it), then `fetch` and the borrow probe.
macro_rules! decl_fresh {
    ($D:ty) => {{
        let mut w = World::new();
        let r = catch_unwind(AssertUnwindSafe(|| { <$D as ShredSystemData>::setup(&mut w); }));
        if r.is_err() { "panic".to_string() } else { decl_line::<$D>(&w) }
    }};
}

fn table(out: &mut String) {
    out.push_str(&format!("decl readstorage 0 => {}\n", decl_fresh!(ReadStorage<CA>)));
    out.push_str(&format!("decl readstorage 1 => {}\n", decl_fresh!(ReadStorage<CB>)));
    out.push_str(&format!("decl readstorage 2 => {}\n", decl_fresh!(ReadStorage<CC>)));
    out.push_str(&format!("decl readstorage 3 => {}\n", decl_fresh!(ReadStorage<CZ>)));
    out.push_str(&format!("decl writestorage 0 => {}\n", decl_fresh!(WriteStorage<CA>)));
    out.push_str(&format!("decl writestorage 1 => {}\n", decl_fresh!(WriteStorage<CB>)));
    out.push_str(&format!("decl writestorage 2 => {}\n", decl_fresh!(WriteStorage<CC>)));
    out.push_str(&format!("decl writestorage 3 => {}\n", decl_fresh!(WriteStorage<CZ>)));
    out.push_str(&format!("decl entities => {}\n", decl_fresh!(Entities)));
    out.push_str(&format!("decl readlazy => {}\n", decl_fresh!(Read<LazyUpdate>)));
}


fn main() {
    std::panic::set_hook(Box::new(|_| {}));
    let mut out = String::from("domain dispatch\ncase table-np\ntable => ok\n");
    table(&mut out);
    print!("{}", out);
}
